package main

// gocode.go — a translator from a small subset of Go method bodies to pure, state-passing Lean 4 functions
// (the Aeneas recipe, by hand and tiny): a method `func (w *T) M(a A) (r R)` becomes
//
//	def M (w : T) (a : A) : R × T
//
// * the receiver is threaded: every statement that can change it rebinds `w`;
// * a field write `w.f = e` is a structure update, `w.f += e` likewise;
// * a call of another method of T is `let (t, w) := M w a;` (hoisted out of the expression it occurred in, in
//   evaluation order; never out of the right operand of && / ||);
// * `return` inside `if` is handled by restructuring: a branch that always returns becomes the `then` of an `if … then …
//   else <rest>`; a branch that never returns is joined through the tuple of the variables it assigns; a branch that
//   returns on some paths gets a copy of the rest of the block;
// * `x.Do(func() { … })` on a sync.Once field is `if w.x then w else (body; w.x := true)` (Go marks the Once done when the
//   function returns);
// * `sync/atomic` loads and stores of a field are plain reads and writes (atomicity is C05's subject, not this file's);
// * a call on a field of interface type (the embedded http.ResponseWriter) is a call of the ENVIRONMENT: it is recorded in
//   the environment's trace and its results are the environment's answers (Code/GoSem.lean: `Env.call`);
// * `v, ok := w.f.(I)` on such a field asks the environment whether it implements I; calls on `v` go to the same environment;
// * the loop idiom `for i := len(w.xs) - 1; i >= 0; i-- { … w.xs[i] … }` (i used only as that index) is `forEachRev`; a call
//   of a value of a named func type F with the receiver as argument is `call_F f w` (given by the emitter's prelude);
// * integer types are Lean's Int (no wrap-around: none of the translated code computes near a bound), `error` is `Err`.
//
// Whatever is outside this subset makes the METHOD untranslated (listed in the generated file with the reason) — never
// silently approximated. The refinement theorems of Props/C13Code are about the generated definitions, so they are
// re-checked by the kernel against what the source says on every run.

import (
	"fmt"
	"go/ast"
	"go/constant"
	"go/token"
	"go/types"
	"os"
	"sort"
	"strings"

	"golang.org/x/tools/go/packages"
)

type codeCfg struct {
	pkg       string // package pattern relative to the repository root
	recvType  string // Go name of the struct type
	namespace string // Lean namespace of the generated definitions
	imports   []string
	prelude   string            // Lean text placed after the structure (environment conventions of this type)
	skip      map[string]string // methods deliberately not translated → reason
	ctors     []string          // package-level functions of the shape `return &T{…}` to translate as constructors
	// strings as byte lists (the models of the request accessors compute on bytes) instead of Lean's String
	stringBytes bool
	// Go type (types.TypeString with full package paths) → the Lean type that stands for it
	types map[string]string
	// library functions and methods (types.Func.FullName()) → the Lean function that stands for them (pure: no state)
	lib map[string]string
	// fields of library structs ("pkgpath.Type.Field") → the Lean function applied to the value
	libFields map[string]string
	// a struct field whose type has no Lean counterpart becomes `Opaque` (a method that touches it is untranslated)
	opaqueFields bool
	// further struct types of the package to translate (plain data: their fields are read as `x.f`)
	structs []string
	// library constructors that wrap an environment field into an object whose method calls are calls of that
	// environment (json.NewEncoder(w) …): full name → prefix of the recorded method names
	envCtors map[string]string
	// library functions whose first argument is an environment field and which act on it (http.Error(w, …)): full name →
	// recorded name
	envFuncs map[string]string
	// assignment to a field of a local value of a library struct type ("pkgpath.Type.Field") → the Lean function
	// `set value newFieldValue` that stands for it
	libFieldSet map[string]string
	// fields ADDED to the generated structure (name, Lean type): modelling devices, e.g. the world a dispatcher acts on
	ghostFields [][2]string
	// named func types T for which the prelude defines `call_T`: only values of these types can be called
	callFuncs map[string]bool
	// package-level functions without effects to translate as pure functions of their arguments
	funcs []string
	// a pointer to a string or to one of `structs` is an `Option` (nil = none); a parameter of pointer type is taken to be
	// non-nil and stands for the value itself
	ptrOption bool
	// library methods that CHANGE the local value they are called on (buf.WriteString(x)): full name → the Lean function
	// `f value args… : value'`
	libOut   map[string]string // library / interface methods that store into a MAP argument: the Lean function returns (results…, map)
	ownArgs  string            // section variables of the prelude (`variable (E : …)`) that a call of one of the receiver's own methods has to pass on
	loopFuel map[string]string // method → the Lean expression bounding the iterations of its `for cond { … }` loop (GoSem.whileFuel)
	assertId bool              // `x.(*T)` on a value whose Lean type is a library type is the value itself (the dynamic type is a fact of the model value)
	libMut   map[string]string
}

type unsupported struct{ why string }

func bad(format string, a ...interface{}) { panic(unsupported{fmt.Sprintf(format, a...)}) }

var leanKeywords = map[string]bool{"at": true, "from": true, "have": true, "show": true, "end": true, "open": true, "in": true,
	"fun": true, "do": true, "then": true, "else": true, "if": true, "let": true, "match": true, "with": true, "where": true,
	"by": true, "local": true, "instance": true, "def": true, "theorem": true, "structure": true, "class": true, "import": true,
	"namespace": true, "section": true, "variable": true, "universe": true, "for": true, "return": true, "mut": true,
	"Type": true, "Prop": true, "Sort": true, "nomatch": true, "suffices": true, "calc": true, "using": true, "deriving": true,
	"matches": true, "notation": true, "prefix": true, "infix": true, "infixl": true, "infixr": true, "postfix": true, "macro": true,
	"syntax": true, "abbrev": true, "example": true, "axiom": true, "opaque": true, "inductive": true, "mutual": true,
	"private": true, "protected": true, "partial": true, "unsafe": true, "noncomputable": true, "extends": true, "export": true,
	"attribute": true, "set_option": true, "termination_by": true, "decreasing_by": true, "elab": true, "nofun": true, "fun_induction": true,
	"assert": true, "unless": true, "try": true, "catch": true, "finally": true, "break": true, "continue": true, "forall": true, "exists": true}

// a Go name that is the name of a Lean type the generated text itself uses would shadow it inside the namespace
var leanTypeNames = map[string]bool{"String": true, "List": true, "Option": true, "Nat": true, "Int": true, "Bool": true,
	"Unit": true, "Type": true, "Prop": true, "Prod": true}

func leanIdent(s string) string {
	if leanKeywords[s] {
		return "«" + s + "»"
	}
	if leanTypeNames[s] {
		return s + "'"
	}
	return s
}

type goTranslator struct {
	panicky map[string]bool          // methods of the receiver type whose body contains `panic(…)`
	decls   map[string]*ast.FuncDecl // methods of the receiver type, by name
	cfg     codeCfg
	pkg     *packages.Package
	info    *types.Info
	recvT   *types.Named
	st      *types.Struct
}

// leanType maps a Go type to the Lean type that stands for it.
func fullType(t types.Type) string {
	return types.TypeString(t, func(p *types.Package) string { return p.Path() })
}

func (g *goTranslator) leanType(t types.Type) string {
	if lt, ok := g.cfg.types[fullType(t)]; ok {
		return lt
	}
	if a, ok := t.(*types.Alias); ok {
		return g.leanType(types.Unalias(a))
	}
	if n, ok := t.(*types.Named); ok && n == g.recvT {
		return g.cfg.recvType
	}
	if n, ok := t.(*types.Named); ok && n.Obj().Pkg() != nil && n.Obj().Pkg() == g.pkg.Types {
		for _, sn := range g.cfg.structs {
			if n.Obj().Name() == sn {
				return sn
			}
		}
	}
	if st, ok := t.Underlying().(*types.Struct); ok && st.NumFields() == 0 {
		return "Unit" // struct{}
	}
	if it, ok := t.Underlying().(*types.Interface); ok && it.NumMethods() == 0 {
		return "Any" // `interface{}`: a value the code only passes on; it stands for its identity
	}
	switch u := t.(type) {
	case *types.Basic:
		switch {
		case u.Info()&types.IsInteger != 0:
			return "Int"
		case u.Info()&types.IsString != 0:
			if g.cfg.stringBytes {
				return "Bytes"
			}
			return "String"
		case u.Info()&types.IsBoolean != 0:
			return "Bool"
		}
	case *types.Slice:
		if b, ok := u.Elem().(*types.Basic); ok && b.Kind() == types.Byte {
			return "Bytes"
		}
		return "List " + g.leanTypeAtom(u.Elem())
	case *types.Map:
		return "List (" + g.leanType(u.Key()) + " × " + g.leanType(u.Elem()) + ")"
	case *types.Named:
		o := u.Obj()
		if o.Pkg() != nil && o.Pkg().Path() == "sync" && o.Name() == "Once" {
			return "Once"
		}
		if o.Pkg() == nil && o.Name() == "error" {
			return "Err"
		}
		switch u.Underlying().(type) {
		case *types.Interface:
			return "Env"
		case *types.Signature:
			return "FuncVal"
		case *types.Basic, *types.Slice, *types.Map:
			return g.leanType(u.Underlying())
		}
	case *types.Interface:
		return "Env"
	case *types.Signature:
		return "FuncVal"
	case *types.Pointer:
		if n, ok := u.Elem().(*types.Named); ok && n == g.recvT {
			return g.cfg.recvType
		}
		if g.cfg.ptrOption {
			return "Option " + g.leanTypeAtom(u.Elem())
		}
	}
	bad("type %s has no Lean counterpart in this subset", t.String())
	return ""
}

// fieldType: like leanType, but a field type outside the subset may be kept as `Opaque`
func (g *goTranslator) fieldType(t types.Type) (lt string) {
	if !g.cfg.opaqueFields {
		return g.leanType(t)
	}
	defer func() {
		if r := recover(); r != nil {
			if _, ok := r.(unsupported); ok {
				lt = "Opaque"
				return
			}
			panic(r)
		}
	}()
	return g.leanType(t)
}

func (g *goTranslator) leanTypeAtom(t types.Type) string {
	s := g.leanType(t)
	if strings.Contains(s, " ") {
		return "(" + s + ")"
	}
	return s
}

func zeroOf(leanT string) string {
	switch leanT {
	case "Int", "Err", "Any", "Lib.RVal", "Lib.Ty":
		return "0"
	case "Bool", "Once":
		return "false"
	case "String":
		return "\"\""
	case "Opaque":
		return "()"
	}
	if strings.HasPrefix(leanT, "List ") || leanT == "Bytes" {
		return "[]"
	}
	if leanT == "Unit" {
		return "()"
	}
	return "(default : " + leanT + ")" // a type of the library tables: its Inhabited instance
}

// one method being translated
type mctx struct {
	g         *goTranslator
	recv      string            // Go name of the receiver variable
	aliases   map[string]string // local → environment field it aliases (results of type assertions)
	aliasPre  map[string]string // local → prefix of the method names recorded for calls on it (json.NewEncoder(w) …)
	results   []string          // named results (Lean names), in order
	nres      int
	tmp       int
	pre       []string // hoisted bindings of the statement being translated
	noHoist   int      // >0 while translating the right operand of && / ||
	loopIdx   string   // loop index variable of the forEachRev idiom being translated ("" outside)
	loopSl    string   // text of the slice expression of that loop
	loopElem  string
	calls     map[string]bool // methods of the receiver this method calls
	retOpt    bool            // inside the body of a range loop: `return x` is `some x`, falling through is `none`
	pure      bool            // a package-level function without a receiver: results only
	plainPtr  map[string]bool // parameters of pointer type: taken to be non-nil, they stand for the value
	envValue  bool            // the value being stored is itself an environment object (a parameter of interface type)
	loopState []string        // inside the body of a general range loop: the variables it threads (nil outside)
	retType   string          // Lean type of the method's results
	resTypes  []string        // Lean types of the results, one by one
	outParams []string        // map parameters the body stores into: Go mutates the caller\'s map, here the new map is an extra result
	panics    bool            // the body contains `panic(…)`: results are `Option …`, `none` = it panicked
	name      string          // the method being translated
}

func (m *mctx) fresh() string { m.tmp++; return fmt.Sprintf("t%d", m.tmp) }

func (m *mctx) isRecv(e ast.Expr) bool {
	id, ok := e.(*ast.Ident)
	return ok && id.Name == m.recv
}

// envField: is e the expression `w.f` with f of interface type (or an alias of one)? returns the field name
func (m *mctx) envField(e ast.Expr) (string, bool) {
	if id, ok := e.(*ast.Ident); ok {
		if f, ok := m.aliases[id.Name]; ok {
			return f, true
		}
		return "", false
	}
	// c.M() where M is the trivial getter `return c.f` of a field of interface type: the same environment object
	if ce, ok := e.(*ast.CallExpr); ok && len(ce.Args) == 0 {
		if cs, ok := ce.Fun.(*ast.SelectorExpr); ok && m.isRecv(cs.X) {
			if fd := m.g.decls[cs.Sel.Name]; fd != nil && fd.Body != nil && len(fd.Body.List) == 1 && len(fd.Recv.List[0].Names) == 1 {
				if rs, ok := fd.Body.List[0].(*ast.ReturnStmt); ok && len(rs.Results) == 1 {
					if fs, ok := rs.Results[0].(*ast.SelectorExpr); ok {
						if id, ok := fs.X.(*ast.Ident); ok && id.Name == fd.Recv.List[0].Names[0].Name {
							if tv, ok := m.g.info.Types[fs]; ok {
								if _, isIface := tv.Type.Underlying().(*types.Interface); isIface {
									return fs.Sel.Name, true
								}
							}
						}
					}
				}
			}
		}
		return "", false
	}
	se, ok := e.(*ast.SelectorExpr)
	if !ok || !m.isRecv(se.X) {
		return "", false
	}
	tv, ok := m.g.info.Types[e]
	if !ok {
		return "", false
	}
	if _, isIface := tv.Type.Underlying().(*types.Interface); isIface {
		return se.Sel.Name, true
	}
	return "", false
}

func goExprText(e ast.Expr) string {
	switch x := e.(type) {
	case *ast.Ident:
		return x.Name
	case *ast.SelectorExpr:
		return goExprText(x.X) + "." + x.Sel.Name
	case *ast.UnaryExpr:
		return x.Op.String() + goExprText(x.X)
	case *ast.StarExpr:
		return "*" + goExprText(x.X)
	case *ast.ParenExpr:
		return "(" + goExprText(x.X) + ")"
	}
	return fmt.Sprintf("%T", e)
}

func constLit(v constant.Value) (string, bool) {
	switch v.Kind() {
	case constant.Int:
		if i, ok := constant.Int64Val(v); ok {
			if i < 0 {
				return fmt.Sprintf("(%d)", i), true
			}
			return fmt.Sprintf("%d", i), true
		}
	case constant.String:
		return leanStr(constant.StringVal(v)), true
	case constant.Bool:
		if constant.BoolVal(v) {
			return "true", true
		}
		return "false", true
	}
	return "", false
}

// atomicCall recognises sync/atomic.<Name>(&w.f, …)
func (m *mctx) atomicCall(c *ast.CallExpr) (name, field string, ok bool) {
	se, isSel := c.Fun.(*ast.SelectorExpr)
	if !isSel {
		return
	}
	pk, isId := se.X.(*ast.Ident)
	if !isId {
		return
	}
	pn, isPkg := m.g.info.Uses[pk].(*types.PkgName)
	if !isPkg || pn.Imported().Path() != "sync/atomic" || len(c.Args) == 0 {
		return
	}
	u, isU := c.Args[0].(*ast.UnaryExpr)
	if !isU || u.Op != token.AND {
		bad("sync/atomic call on something that is not &%s.field", m.recv)
	}
	fs, isF := u.X.(*ast.SelectorExpr)
	if !isF || !m.isRecv(fs.X) {
		bad("sync/atomic call on something that is not &%s.field", m.recv)
	}
	return se.Sel.Name, fs.Sel.Name, true
}

func (m *mctx) hoist(line string) {
	if m.noHoist > 0 {
		bad("a call with effects in the right operand of && or ||")
	}
	m.pre = append(m.pre, line)
}

func atomOf(s string) string {
	if strings.ContainsAny(s, " ") && !(strings.HasPrefix(s, "(") && strings.HasSuffix(s, ")") && balanced(s[1:len(s)-1])) {
		return "(" + s + ")"
	}
	return s
}

// argInt: how an argument is shown to the environment: numbers, byte slices and strings as they are
func (m *mctx) argInt(a ast.Expr) string {
	t := m.g.leanType(m.g.info.Types[a].Type)
	s := m.expr(a)
	switch t {
	case "Int", "Any", "Lib.Ty", "Lib.RVal":
		return "Arg.int " + atomOf(s)
	case "Bytes":
		return "Arg.bytes " + atomOf(s)
	case "String":
		return "Arg.str " + atomOf(s)
	}
	_ = s
	return "Arg.other" // passed on to the environment; the trace does not spell it out
}

func (m *mctx) envCall(field, method string, args []ast.Expr, nres int) string {
	as := make([]string, len(args))
	for i, a := range args {
		as[i] = m.argInt(a)
	}
	r := m.fresh()
	w := leanIdent(m.recv)
	m.hoist(fmt.Sprintf("let (%s, %s) := envCall_%s %s %s [%s];", r, w, field, w, leanStr(method), strings.Join(as, ", ")))
	switch nres {
	case 0:
		return "()"
	case 1:
		return r + ".1"
	case 2:
		return r
	}
	bad("environment method %s with %d results", method, nres)
	return ""
}

func (m *mctx) expr(e ast.Expr) string {
	if tv, ok := m.g.info.Types[e]; ok && tv.Value != nil {
		if m.g.cfg.stringBytes && tv.Value.Kind() == constant.String {
			sv := constant.StringVal(tv.Value)
			if sv == "" {
				return "([] : Bytes)"
			}
			return "(" + leanBytes(sv) + " : Bytes) /- " + strings.ReplaceAll(leanStr(sv), "-/", "- /") + " -/"
		}
		if s, ok := constLit(tv.Value); ok {
			return s
		}
	}
	switch x := e.(type) {
	case *ast.ParenExpr:
		return "(" + m.expr(x.X) + ")"
	case *ast.TypeAssertExpr:
		if m.g.cfg.assertId && x.Type != nil {
			if tv, ok := m.g.info.Types[x.X]; ok && strings.HasPrefix(m.g.leanType(tv.Type), "Lib.") {
				return m.expr(x.X)
			}
		}
		bad("type assertion %s", goExprText(x))
	case *ast.Ident:
		switch x.Name {
		case "nil":
			return "0" // only `error` and func values are nil-able in this subset; both are numbers
		case "true", "false":
			return x.Name
		}
		if _, isAlias := m.aliases[x.Name]; isAlias {
			bad("the asserted value %s used as a value", x.Name)
		}
		if x.Name == m.loopIdx && m.loopIdx != "" {
			bad("loop index %s used other than as index of %s", x.Name, m.loopSl)
		}
		return leanIdent(x.Name)
	case *ast.SelectorExpr:
		if m.isRecv(x.X) {
			if _, isEnv := m.envField(x); isEnv {
				bad("environment field %s used as a value", x.Sel.Name)
			}
			if sel := m.g.info.Selections[x]; sel != nil && sel.Kind() == types.FieldVal && len(sel.Index()) > 1 {
				// a field promoted from an embedded struct (`t.segment` for `t.baseTree.segment`): the path through the embedded
				// fields, each of which must be a struct value (not a pointer) the translation knows
				out := leanIdent(m.recv)
				var cur types.Type = m.g.recvT
				for _, ix := range sel.Index() {
					st, ok := cur.Underlying().(*types.Struct)
					if !ok {
						bad("promoted field %s through something that is not a struct value", x.Sel.Name)
					}
					f := st.Field(ix)
					out += "." + leanIdent(f.Name())
					cur = f.Type()
				}
				return out
			}
			return leanIdent(m.recv) + "." + leanIdent(x.Sel.Name)
		}
		if sel := m.g.info.Selections[x]; sel != nil && sel.Kind() == types.FieldVal {
			if tv, ok := m.g.info.Types[x.X]; ok {
				xt := tv.Type
				if p, ok := xt.(*types.Pointer); ok {
					xt = p.Elem()
				}
				if n, ok := xt.(*types.Named); ok && n.Obj().Pkg() == m.g.pkg.Types && len(sel.Index()) == 1 {
					for _, sn := range append(append([]string{}, m.g.cfg.structs...), m.g.cfg.recvType) {
						if n.Obj().Name() == sn {
							base := m.atom(x.X)
							if _, isPtr := tv.Type.(*types.Pointer); isPtr && m.g.cfg.ptrOption {
								if id, isId := x.X.(*ast.Ident); !isId || !m.plainPtr[id.Name] {
									base = "(GoSem.deref " + base + ")" // Go dereferences implicitly (and panics on nil)
								}
							}
							return base + "." + leanIdent(x.Sel.Name)
						}
					}
				}
			}
			key := fieldOwner(sel) + "." + x.Sel.Name
			if fn, ok := m.g.cfg.libFields[key]; ok {
				return "(" + fn + " " + m.atom(x.X) + ")"
			}
			bad("field %s of a library type is not in the table", key)
		}
		bad("selector %s", goExprText(x))
	case *ast.IndexExpr:
		if m.loopIdx != "" && goExprText(x.X) == m.loopSl {
			if id, ok := x.Index.(*ast.Ident); ok && id.Name == m.loopIdx {
				return m.loopElem
			}
		}
		if tv, ok := m.g.info.Types[x.X]; ok {
			switch tv.Type.Underlying().(type) {
			case *types.Map:
				return "(GoSem.mapGet " + m.atom(x.X) + " " + m.atom(x.Index) + ")"
			case *types.Slice:
				// NOT represented: Go panics when the index is out of range; `idx` then yields the zero value
				return "(GoSem.idx " + m.atom(x.X) + " " + m.atom(x.Index) + ")"
			}
		}
		bad("index expression on %s", goExprText(x.X))
	case *ast.SliceExpr:
		if x.Slice3 {
			bad("three-index slice")
		}
		// NOT represented: Go panics when a bound is out of range; `sliceTo/sliceFrom` then clamp
		switch {
		case x.Low == nil && x.High != nil:
			return "(GoSem.sliceTo " + m.atom(x.X) + " " + m.atom(x.High) + ")"
		case x.Low != nil && x.High == nil:
			return "(GoSem.sliceFrom " + m.atom(x.X) + " " + m.atom(x.Low) + ")"
		}
		if x.Low != nil && x.High != nil {
			return "(GoSem.sliceTo (GoSem.sliceFrom " + m.atom(x.X) + " " + m.atom(x.Low) + ") (" + m.expr(x.High) + " - " + m.atom(x.Low) + "))"
		}
		bad("slice expression without bounds")
	case *ast.CompositeLit:
		if tv, ok := m.g.info.Types[x]; ok {
			if _, isSl := tv.Type.Underlying().(*types.Slice); isSl {
				var es []string
				for _, el := range x.Elts {
					if _, isKV := el.(*ast.KeyValueExpr); isKV {
						bad("slice literal with indices")
					}
					es = append(es, m.expr(el))
				}
				return "([" + strings.Join(es, ", ") + "] : " + m.g.leanType(tv.Type) + ")"
			}
			if st, isSt := tv.Type.Underlying().(*types.Struct); isSt && st.NumFields() == 0 {
				return "()"
			}
			if _, isMap := tv.Type.Underlying().(*types.Map); isMap {
				var es []string
				for _, el := range x.Elts {
					kv, ok := el.(*ast.KeyValueExpr)
					if !ok {
						bad("map literal element")
					}
					es = append(es, "("+m.expr(kv.Key)+", "+m.expr(kv.Value)+")")
				}
				return "([" + strings.Join(es, ", ") + "] : " + m.g.leanType(tv.Type) + ")"
			}
		}
		bad("composite literal")
	case *ast.StarExpr:
		// `*p` for a pointer that is an Option. NOT represented: a nil dereference panics in Go; here the zero value comes out
		if m.g.cfg.ptrOption {
			return "(GoSem.deref " + m.atom(x.X) + ")"
		}
		bad("pointer dereference")
	case *ast.UnaryExpr:
		switch x.Op {
		case token.NOT:
			return "(!" + m.expr(x.X) + ")"
		case token.SUB:
			return "(-" + m.expr(x.X) + ")"
		}
		bad("unary operator %s", x.Op)
	case *ast.BinaryExpr:
		if x.Op == token.EQL || x.Op == token.NEQ {
			// w.f == nil / w.f != nil for a field of interface type: is there an object at all
			var fe ast.Expr
			if id, ok := x.Y.(*ast.Ident); ok && id.Name == "nil" {
				fe = x.X
			} else if id, ok := x.X.(*ast.Ident); ok && id.Name == "nil" {
				fe = x.Y
			}
			if fe != nil {
				if tv, ok := m.g.info.Types[fe]; ok && m.g.cfg.ptrOption {
					if _, isPtr := tv.Type.(*types.Pointer); isPtr {
						if id, isId := fe.(*ast.Ident); !isId || !m.plainPtr[id.Name] {
							if x.Op == token.NEQ {
								return "(" + m.atom(fe) + ").isSome"
							}
							return "(" + m.atom(fe) + ").isNone"
						}
					}
				}
				if se, ok := fe.(*ast.SelectorExpr); ok && m.isRecv(se.X) {
					if f, isEnv := m.envField(fe); isEnv {
						t := leanIdent(m.recv) + "." + leanIdent(f) + ".isNil"
						if x.Op == token.NEQ {
							return "(!" + t + ")"
						}
						return t
					}
				}
			}
		}
		a := m.expr(x.X)
		if x.Op == token.LAND || x.Op == token.LOR {
			m.noHoist++
		}
		b := m.expr(x.Y)
		if x.Op == token.LAND || x.Op == token.LOR {
			m.noHoist--
		}
		switch x.Op {
		case token.ADD:
			if lt := m.g.leanType(m.g.info.Types[x].Type); lt == "String" || lt == "Bytes" {
				return "(" + a + " ++ " + b + ")"
			}
			return "(" + a + " + " + b + ")"
		case token.SUB:
			return "(" + a + " - " + b + ")"
		case token.MUL:
			return "(" + a + " * " + b + ")"
		case token.EQL:
			return "(" + a + " == " + b + ")"
		case token.NEQ:
			return "(" + a + " != " + b + ")"
		case token.LSS:
			return "(decide (" + a + " < " + b + "))"
		case token.LEQ:
			return "(decide (" + a + " ≤ " + b + "))"
		case token.GTR:
			return "(decide (" + a + " > " + b + "))"
		case token.GEQ:
			return "(decide (" + a + " ≥ " + b + "))"
		case token.LAND:
			return "(" + a + " && " + b + ")"
		case token.LOR:
			return "(" + a + " || " + b + ")"
		}
		bad("binary operator %s", x.Op)
	case *ast.CallExpr:
		return m.call(x)
	}
	bad("expression %T", e)
	return ""
}

// atom: an expression as an argument of a Lean application
func (m *mctx) atom(e ast.Expr) string {
	s := m.expr(e)
	if strings.ContainsAny(s, " ") && !(strings.HasPrefix(s, "(") && strings.HasSuffix(s, ")") && balanced(s[1:len(s)-1])) {
		return "(" + s + ")"
	}
	return s
}

func balanced(s string) bool {
	d := 0
	for _, r := range s {
		switch r {
		case '(':
			d++
		case ')':
			d--
			if d < 0 {
				return false
			}
		}
	}
	return d == 0
}

// fieldOwner: "pkgpath.Type" of the struct that declares the selected field (through embedded fields)
func fieldOwner(sel *types.Selection) string {
	t := sel.Recv()
	path := sel.Index()
	owner := ""
	for _, i := range path {
		if p, ok := t.Underlying().(*types.Pointer); ok {
			t = p.Elem()
		}
		if p, ok := t.(*types.Pointer); ok {
			t = p.Elem()
		}
		st, ok := t.Underlying().(*types.Struct)
		if !ok {
			return owner
		}
		if n, ok := t.(*types.Named); ok && n.Obj().Pkg() != nil {
			owner = n.Obj().Pkg().Path() + "." + n.Obj().Name()
		}
		t = st.Field(i).Type()
	}
	return owner
}

// libFunc: the function a call expression calls, when it is a library function or method in the table
func (m *mctx) libFunc(c *ast.CallExpr) (lean string, recv ast.Expr, ok bool) {
	var id *ast.Ident
	switch f := c.Fun.(type) {
	case *ast.Ident:
		id = f
	case *ast.SelectorExpr:
		id = f.Sel
		if sel := m.g.info.Selections[f]; sel != nil && sel.Kind() == types.MethodVal {
			recv = f.X
		}
	default:
		return
	}
	fn, isFn := m.g.info.Uses[id].(*types.Func)
	if !isFn {
		return
	}
	lean, ok = m.g.cfg.lib[fn.FullName()]
	return
}

// libOutFunc: a call of a library / interface method that stores into a map argument (cfg.libOut)
func (m *mctx) libOutFunc(c *ast.CallExpr) (lean string, recv ast.Expr, ok bool) {
	se, isSel := c.Fun.(*ast.SelectorExpr)
	if !isSel {
		return
	}
	fn, isFn := m.g.info.Uses[se.Sel].(*types.Func)
	if !isFn {
		return
	}
	lean, ok = m.g.cfg.libOut[fn.FullName()]
	return lean, se.X, ok
}

// mapArgs: the identifiers passed for the map-typed parameters of a call
func (m *mctx) mapArgs(c *ast.CallExpr) (names []string) {
	for _, a := range c.Args {
		tv, ok := m.g.info.Types[a]
		if !ok {
			continue
		}
		if _, isMap := tv.Type.Underlying().(*types.Map); !isMap || strings.HasPrefix(m.g.leanType(tv.Type), "Lib.") {
			continue
		}
		id, isId := a.(*ast.Ident)
		if !isId {
			bad("a map argument that is not an identifier")
		}
		names = append(names, id.Name)
	}
	return
}

// ownOut: a call of one of the receiver's own methods that (transitively) stores into a map parameter: which arguments
func (m *mctx) ownOut(c *ast.CallExpr) (names []string) {
	se, isSel := c.Fun.(*ast.SelectorExpr)
	if !isSel || !m.isRecv(se.X) {
		return nil
	}
	fd := m.g.decls[se.Sel.Name]
	if fd == nil {
		return nil
	}
	for _, i := range m.g.mutatedMapParams(fd, map[string]bool{}) {
		if i < len(c.Args) {
			id, isId := c.Args[i].(*ast.Ident)
			if !isId {
				bad("a map argument that is not an identifier")
			}
			names = append(names, id.Name)
		}
	}
	return
}

// mutatedMapParams: the indices of the map-typed parameters of a method whose entries the body may change — by a store, a
// delete, a call of a cfg.libOut method, or a call of another of the receiver's methods that does
func (g *goTranslator) mutatedMapParams(fd *ast.FuncDecl, busy map[string]bool) (idx []int) {
	if fd.Body == nil || busy[fd.Name.Name] {
		return nil
	}
	busy[fd.Name.Name] = true
	defer delete(busy, fd.Name.Name)
	pos := map[string]int{}
	k := 0
	for _, f := range fd.Type.Params.List {
		_, isMap := g.info.Types[f.Type].Type.Underlying().(*types.Map)
		if isMap && strings.HasPrefix(g.leanType(g.info.Types[f.Type].Type), "Lib.") {
			isMap = false // a library type that happens to be a map (http.Header): a value
		}
		if len(f.Names) == 0 {
			k++
			continue
		}
		for _, n := range f.Names {
			if isMap {
				pos[n.Name] = k
			}
			k++
		}
	}
	hit := map[int]bool{}
	mark := func(e ast.Expr) {
		if id, ok := e.(*ast.Ident); ok {
			if i, isP := pos[id.Name]; isP {
				hit[i] = true
			}
		}
	}
	recvName := ""
	if fd.Recv != nil && len(fd.Recv.List) == 1 && len(fd.Recv.List[0].Names) == 1 {
		recvName = fd.Recv.List[0].Names[0].Name
	}
	ast.Inspect(fd.Body, func(n ast.Node) bool {
		switch x := n.(type) {
		case *ast.AssignStmt:
			for _, l := range x.Lhs {
				if ie, ok := l.(*ast.IndexExpr); ok {
					mark(ie.X)
				}
			}
		case *ast.CallExpr:
			if id, ok := x.Fun.(*ast.Ident); ok && id.Name == "delete" && len(x.Args) == 2 {
				mark(x.Args[0])
			}
			if se, ok := x.Fun.(*ast.SelectorExpr); ok {
				if fn, isFn := g.info.Uses[se.Sel].(*types.Func); isFn {
					if _, isOut := g.cfg.libOut[fn.FullName()]; isOut {
						for _, a := range x.Args {
							mark(a)
						}
					}
				}
				if rid, ok := se.X.(*ast.Ident); ok && rid.Name == recvName && recvName != "" {
					if callee := g.decls[se.Sel.Name]; callee != nil {
						for _, i := range g.mutatedMapParams(callee, busy) {
							if i < len(x.Args) {
								mark(x.Args[i])
							}
						}
					}
				}
			}
		}
		return true
	})
	for i := 0; i < k; i++ {
		if hit[i] {
			idx = append(idx, i)
		}
	}
	return
}

// libMutCall: x.M(args) with x a local value and M a library method that changes it
func (m *mctx) libMutCall(c *ast.CallExpr) (lean, local string, ok bool) {
	se, isSel := c.Fun.(*ast.SelectorExpr)
	if !isSel {
		return
	}
	id, isId := se.X.(*ast.Ident)
	if !isId || m.isRecv(id) {
		return
	}
	fn, isFn := m.g.info.Uses[se.Sel].(*types.Func)
	if !isFn {
		return
	}
	lean, ok = m.g.cfg.libMut[fn.FullName()]
	return lean, id.Name, ok
}

// pkgFuncName: the full name of the package-level function a call calls ("" when it is something else)
func (m *mctx) pkgFuncName(c *ast.CallExpr) string {
	var id *ast.Ident
	switch f := c.Fun.(type) {
	case *ast.Ident:
		id = f
	case *ast.SelectorExpr:
		id = f.Sel
	default:
		return ""
	}
	if fn, ok := m.g.info.Uses[id].(*types.Func); ok {
		return fn.FullName()
	}
	return ""
}

func (m *mctx) call(c *ast.CallExpr) string {
	if name, ok := m.g.cfg.envFuncs[m.pkgFuncName(c)]; ok && len(c.Args) >= 1 {
		if f, isEnv := m.envField(c.Args[0]); isEnv {
			sig, _ := m.g.info.Types[c.Fun].Type.(*types.Signature)
			n := 0
			if sig != nil {
				n = sig.Results().Len()
			}
			return m.envCall(f, name, c.Args[1:], n)
		}
		bad("%s on something that is not an environment field", name)
	}
	if lean, recv, ok := m.libOutFunc(c); ok {
		parts := []string{lean, m.atom(recv)}
		for _, a := range c.Args {
			parts = append(parts, m.atom(a))
		}
		outs := m.mapArgs(c)
		if len(outs) != 1 {
			bad("a call of %s with %d map arguments", lean, len(outs))
		}
		sig, _ := m.g.info.Types[c.Fun].Type.(*types.Signature)
		var rs []string
		for i := 0; sig != nil && i < sig.Results().Len(); i++ {
			rs = append(rs, m.fresh())
		}
		m.hoist(fmt.Sprintf("let %s := %s;", tuple(append(append([]string{}, rs...), leanIdent(outs[0]))), strings.Join(parts, " ")))
		if len(rs) == 0 {
			return "()"
		}
		return tuple(rs)
	}
	if lean, recv, ok := m.libFunc(c); ok {
		// a method the receiver gets from an embedded struct (`l.matchHeader(h)` of baseLeaf) may be in the table too: it is then
		// a function of the receiver's value
		only := -1
		if i := strings.LastIndex(lean, "@"); i >= 0 {
			fmt.Sscanf(lean[i+1:], "%d", &only) // "Name@i": only argument i is passed on (the others are message details)
			lean = lean[:i]
		}
		parts := []string{lean}
		if recv != nil {
			parts = append(parts, m.atom(recv))
		}
		for i, a := range c.Args {
			if only >= 0 && i != only {
				continue
			}
			parts = append(parts, m.atom(a))
		}
		return "(" + strings.Join(parts, " ") + ")"
	}
	// conversion
	if tv, ok := m.g.info.Types[c.Fun]; ok && tv.IsType() {
		if len(c.Args) != 1 {
			bad("conversion with %d arguments", len(c.Args))
		}
		from, to := m.g.leanType(m.g.info.Types[c.Args[0]].Type), m.g.leanType(tv.Type)
		if from != to {
			bad("conversion from %s to %s", from, to)
		}
		return m.expr(c.Args[0])
	}
	if id, ok := c.Fun.(*ast.Ident); ok {
		if _, isBuiltin := m.g.info.Uses[id].(*types.Builtin); isBuiltin {
			switch id.Name {
			case "len":
				return "(" + m.expr(c.Args[0]) + ".length : Int)"
			case "append":
				if len(c.Args) == 2 && c.Ellipsis.IsValid() {
					return "(" + m.expr(c.Args[0]) + " ++ " + m.atom(c.Args[1]) + ")"
				}
				if len(c.Args) < 2 {
					bad("append without elements")
				}
				var els []string
				for _, a := range c.Args[1:] {
					els = append(els, m.expr(a))
				}
				return "(" + m.expr(c.Args[0]) + " ++ [" + strings.Join(els, ", ") + "])"
			case "make":
				if tv, ok := m.g.info.Types[c.Args[0]]; ok {
					if _, isMap := tv.Type.Underlying().(*types.Map); isMap {
						return "([] : " + m.g.leanType(tv.Type) + ")"
					}
				}
				if tv, ok := m.g.info.Types[c.Args[0]]; ok && len(c.Args) >= 2 {
					if sl, isSl := tv.Type.Underlying().(*types.Slice); isSl {
						lt := m.g.leanType(tv.Type)
						if ltv, ok := m.g.info.Types[c.Args[1]]; ok && ltv.Value != nil && ltv.Value.ExactString() == "0" {
							return "([] : " + lt + ")" // make([]T, 0, cap)
						}
						// make([]T, n): n zero values
						return "(List.replicate (" + m.expr(c.Args[1]) + ").toNat (" + zeroOf(m.g.leanType(sl.Elem())) + ") : " + lt + ")"
					}
				}
				bad("make of something that is not a map or a slice")
			}
			bad("builtin %s", id.Name)
		}
		// a call of a local value of a named func type T: `call_T f recv args…` (the receiver itself is not repeated among the
		// arguments); with results: `(results, recv)`
		if tv, ok := m.g.info.Types[c.Fun]; ok {
			if n, ok := tv.Type.(*types.Named); ok {
				if sg, isSig := n.Underlying().(*types.Signature); isSig {
					if !m.g.cfg.callFuncs[n.Obj().Name()] {
						bad("call of a value of func type %s", n.Obj().Name())
					}
					w := leanIdent(m.recv)
					parts := []string{"call_" + n.Obj().Name(), leanIdent(id.Name), w}
					for _, a := range c.Args {
						if m.isRecv(a) {
							continue
						}
						parts = append(parts, m.atom(a))
					}
					if sg.Results().Len() == 0 {
						m.hoist(fmt.Sprintf("let %s := %s;", w, strings.Join(parts, " ")))
						return "()"
					}
					r := m.fresh()
					m.hoist(fmt.Sprintf("let (%s, %s) := %s;", r, w, strings.Join(parts, " ")))
					return r
				}
			}
		}
		bad("call of %s", id.Name)
	}
	if name, field, ok := m.atomicCall(c); ok {
		w := leanIdent(m.recv)
		switch {
		case strings.HasPrefix(name, "Load") && len(c.Args) == 1:
			return w + "." + leanIdent(field)
		case strings.HasPrefix(name, "Store") && len(c.Args) == 2:
			v := m.expr(c.Args[1])
			m.hoist(fmt.Sprintf("let %s := { %s with %s := %s };", w, w, leanIdent(field), v))
			return "()"
		}
		bad("sync/atomic.%s", name)
	}
	// a call of a func-typed element: w.xs[i](w)
	if ix, ok := c.Fun.(*ast.IndexExpr); ok {
		if tv, ok := m.g.info.Types[ix]; ok {
			if n, ok := tv.Type.(*types.Named); ok {
				if _, isSig := n.Underlying().(*types.Signature); isSig && len(c.Args) == 1 && m.isRecv(c.Args[0]) && m.g.cfg.callFuncs[n.Obj().Name()] {
					f := m.expr(ix)
					w := leanIdent(m.recv)
					m.hoist(fmt.Sprintf("let %s := call_%s %s %s;", w, n.Obj().Name(), f, w))
					return "()"
				}
			}
		}
		bad("call of an indexed value")
	}
	// a call of a function VALUE of a named func type T — what a library method returned (`leaf.Handler()(w, req, ps)`) or a
	// field of the receiver (`r.notFound(w, req)`): `call_T f recv args…`, given by the emitter's prelude
	if tv, ok := m.g.info.Types[c.Fun]; ok {
		if n, ok := tv.Type.(*types.Named); ok {
			if _, isSig := n.Underlying().(*types.Signature); isSig {
				_, isCall := c.Fun.(*ast.CallExpr)
				fse, isSel := c.Fun.(*ast.SelectorExpr)
				isField := false
				if isSel && m.isRecv(fse.X) {
					if sel := m.g.info.Selections[fse]; sel != nil && sel.Kind() == types.FieldVal {
						isField = true
					}
				}
				if isCall || isField {
					if !m.g.cfg.callFuncs[n.Obj().Name()] {
						bad("call of a value of func type %s", n.Obj().Name())
					}
					f := m.atom(c.Fun)
					parts := []string{"call_" + n.Obj().Name(), f, leanIdent(m.recv)}
					for _, a := range c.Args {
						if m.isRecv(a) {
							continue
						}
						parts = append(parts, m.atom(a))
					}
					w := leanIdent(m.recv)
					if sg := n.Underlying().(*types.Signature); sg.Results().Len() > 0 {
						r := m.fresh()
						m.hoist(fmt.Sprintf("let (%s, %s) := %s;", r, w, strings.Join(parts, " ")))
						return r
					}
					m.hoist(fmt.Sprintf("let %s := %s;", w, strings.Join(parts, " ")))
					return "()"
				}
			}
		}
	}
	se, ok := c.Fun.(*ast.SelectorExpr)
	if !ok {
		bad("call of %T", c.Fun)
	}
	sig, _ := m.g.info.Types[c.Fun].Type.(*types.Signature)
	nres := 0
	if sig != nil {
		nres = sig.Results().Len()
	}
	// environment call: w.f.M(args) or alias.M(args)
	if f, isEnv := m.envField(se.X); isEnv {
		name := se.Sel.Name
		if id, ok := se.X.(*ast.Ident); ok {
			name = m.aliasPre[id.Name] + name
		}
		return m.envCall(f, name, c.Args, nres)
	}
	// w.f.A().B(args): a call on what a parameterless call of the environment returned (w.Header().Set(k, v)) is a call of
	// the environment too, recorded as "A.B"
	if inner, ok := se.X.(*ast.CallExpr); ok && len(inner.Args) == 0 {
		if ise, ok := inner.Fun.(*ast.SelectorExpr); ok {
			if f, isEnv := m.envField(ise.X); isEnv {
				return m.envCall(f, ise.Sel.Name+"."+se.Sel.Name, c.Args, nres)
			}
		}
	}
	// method of the receiver
	if m.isRecv(se.X) {
		sel := m.g.info.Selections[se]
		if sel == nil || sel.Kind() != types.MethodVal {
			bad("call of field %s", se.Sel.Name)
		}
		fn := sel.Obj().(*types.Func)
		rt := fn.Type().(*types.Signature).Recv().Type()
		if p, ok := rt.(*types.Pointer); ok {
			rt = p.Elem()
		}
		if rt != types.Type(m.g.recvT) {
			// promoted through an embedded field
			path := sel.Index()
			fld := m.g.st.Field(path[0])
			if _, isIface := fld.Type().Underlying().(*types.Interface); isIface && len(path) == 2 {
				return m.envCall(fld.Name(), se.Sel.Name, c.Args, nres)
			}
			bad("promoted method %s", se.Sel.Name)
		}
		if m.g.panicky[se.Sel.Name] {
			bad("calls %s, which may panic (a panic is represented in the result of the method that raises it only)", se.Sel.Name)
		}
		var args []string
		fsig := fn.Type().(*types.Signature)
		np := fsig.Params().Len()
		for i, a := range c.Args {
			if fsig.Variadic() && i >= np-1 {
				break
			}
			args = append(args, m.atom(a))
		}
		if fsig.Variadic() {
			if c.Ellipsis.IsValid() {
				args = append(args, m.atom(c.Args[len(c.Args)-1]))
			} else {
				var extra []string
				for i := np - 1; i < len(c.Args); i++ {
					extra = append(extra, m.expr(c.Args[i]))
				}
				args = append(args, "["+strings.Join(extra, ", ")+"]")
			}
		}
		m.calls[se.Sel.Name] = true
		w := leanIdent(m.recv)
		r := "_"
		if nres > 0 {
			r = m.fresh()
		}
		sp := ""
		if len(args) > 0 {
			sp = " " + strings.Join(args, " ")
		}
		if outs := m.ownOut(c); len(outs) > 0 {
			var rs []string
			for i := 0; i < nres; i++ {
				rs = append(rs, m.fresh())
			}
			all := append([]string{}, rs...)
			for _, o := range outs {
				all = append(all, leanIdent(o))
			}
			m.hoist(fmt.Sprintf("let (%s, %s) := %s%s %s%s;", tuple(all), w, leanIdent(se.Sel.Name), m.g.cfg.ownArgs, w, sp))
			if nres == 0 {
				return "()"
			}
			return tuple(rs)
		}
		m.hoist(fmt.Sprintf("let (%s, %s) := %s%s %s%s;", r, w, leanIdent(se.Sel.Name), m.g.cfg.ownArgs, w, sp))
		if nres == 0 {
			return "()"
		}
		return r
	}
	bad("call %s", goExprText(c.Fun))
	return ""
}

// ---- statements ---------------------------------------------------------------------------------------------------

// switchToIf: a tagless `switch { case c1: …; case c2: …; default: … }` whose clauses neither break nor fall through is the
// if-else chain it abbreviates (the conditions are tried in order; the default may stand anywhere but is tried last)
func switchToIf(sw *ast.SwitchStmt) ast.Stmt {
	if sw.Tag != nil || sw.Init != nil {
		bad("switch with a tag or an init statement")
	}
	var clauses []*ast.CaseClause
	var def *ast.CaseClause
	for _, c := range sw.Body.List {
		cc := c.(*ast.CaseClause)
		for _, st := range cc.Body {
			ast.Inspect(st, func(n ast.Node) bool {
				switch b := n.(type) {
				case *ast.BranchStmt:
					if b.Tok == token.BREAK || b.Tok == token.FALLTHROUGH {
						bad("%s inside a switch", b.Tok)
					}
				case *ast.FuncLit, *ast.ForStmt, *ast.RangeStmt, *ast.SwitchStmt, *ast.SelectStmt, *ast.TypeSwitchStmt:
					return false
				}
				return true
			})
		}
		if cc.List == nil {
			def = cc
			continue
		}
		if len(cc.List) != 1 {
			bad("switch case with several expressions")
		}
		clauses = append(clauses, cc)
	}
	if len(clauses) == 0 {
		bad("switch without a case")
	}
	var els ast.Stmt
	if def != nil {
		els = &ast.BlockStmt{Lbrace: def.Pos(), List: def.Body, Rbrace: def.End()}
	}
	for k := len(clauses) - 1; k >= 0; k-- {
		cc := clauses[k]
		els = &ast.IfStmt{If: cc.Pos(), Cond: cc.List[0], Body: &ast.BlockStmt{Lbrace: cc.Pos(), List: cc.Body, Rbrace: cc.End()}, Else: els}
	}
	return els
}

func isPanicCall(e ast.Expr) bool {
	c, ok := e.(*ast.CallExpr)
	if !ok {
		return false
	}
	id, ok := c.Fun.(*ast.Ident)
	return ok && id.Name == "panic"
}

func hasReturn(n ast.Node) bool {
	found := false
	ast.Inspect(n, func(x ast.Node) bool {
		switch y := x.(type) {
		case *ast.ExprStmt:
			if isPanicCall(y.X) {
				found = true
			}
		case *ast.ReturnStmt:
			found = true
		case *ast.FuncLit:
			return false
		}
		return !found
	})
	return found
}

// hasBranch: a break / continue that belongs to the loop whose body `n` is (not to a loop nested in it)
func hasBranch(n ast.Node) bool {
	found := false
	ast.Inspect(n, func(x ast.Node) bool {
		switch b := x.(type) {
		case *ast.BranchStmt:
			if b.Tok == token.BREAK || b.Tok == token.CONTINUE {
				found = true
			}
		case *ast.FuncLit, *ast.ForStmt, *ast.RangeStmt, *ast.SwitchStmt, *ast.SelectStmt, *ast.TypeSwitchStmt:
			return false
		}
		return !found
	})
	return found
}

// jumps: control may leave `n` other than by falling off its end
func (m *mctx) jumps(n ast.Node) bool {
	return hasReturn(n) || (m.loopState != nil && hasBranch(n))
}

func (m *mctx) alwaysJumps(stmts []ast.Stmt) bool {
	if len(stmts) == 0 {
		return false
	}
	switch s := stmts[len(stmts)-1].(type) {
	case *ast.ReturnStmt:
		return true
	case *ast.ExprStmt:
		return isPanicCall(s.X)
	case *ast.BranchStmt:
		return m.loopState != nil && (s.Tok == token.BREAK || s.Tok == token.CONTINUE)
	case *ast.IfStmt:
		if s.Else == nil {
			return false
		}
		var els []ast.Stmt
		switch e := s.Else.(type) {
		case *ast.BlockStmt:
			els = e.List
		case *ast.IfStmt:
			els = []ast.Stmt{e}
		}
		return m.alwaysJumps(s.Body.List) && m.alwaysJumps(els)
	case *ast.BlockStmt:
		return m.alwaysJumps(s.List)
	}
	return false
}

func alwaysReturns(stmts []ast.Stmt) bool {
	if len(stmts) == 0 {
		return false
	}
	switch s := stmts[len(stmts)-1].(type) {
	case *ast.ReturnStmt:
		return true
	case *ast.IfStmt:
		if s.Else == nil {
			return false
		}
		var els []ast.Stmt
		switch e := s.Else.(type) {
		case *ast.BlockStmt:
			els = e.List
		case *ast.IfStmt:
			els = []ast.Stmt{e}
		}
		return alwaysReturns(s.Body.List) && alwaysReturns(els)
	case *ast.BlockStmt:
		return alwaysReturns(s.List)
	}
	return false
}

// assigned: outer variables (declared before the statement) that the statements assign, and whether they touch the receiver
func (m *mctx) assigned(stmts []ast.Stmt) (vars []string, recv bool) {
	declared := map[string]bool{}
	seen := map[string]bool{}
	for _, s := range stmts {
		ast.Inspect(s, func(n ast.Node) bool {
			switch x := n.(type) {
			case *ast.FuncLit:
				return false
			case *ast.AssignStmt:
				for _, l := range x.Lhs {
					switch lv := l.(type) {
					case *ast.Ident:
						if lv.Name == "_" {
							continue
						}
						if x.Tok == token.DEFINE {
							declared[lv.Name] = true
						} else if !declared[lv.Name] && !seen[lv.Name] {
							seen[lv.Name] = true
							vars = append(vars, leanIdent(lv.Name))
						}
					case *ast.SelectorExpr, *ast.IndexExpr:
						// a store into a field / an entry: of the receiver, or of a local value (which is then rebound)
						var root ast.Expr = lv
						for {
							switch r := root.(type) {
							case *ast.SelectorExpr:
								root = r.X
								continue
							case *ast.IndexExpr:
								root = r.X
								continue
							}
							break
						}
						if id, ok := root.(*ast.Ident); ok {
							if id.Name == m.recv {
								recv = true
							} else if !declared[id.Name] && !seen[id.Name] {
								seen[id.Name] = true
								vars = append(vars, leanIdent(id.Name))
							}
						}
					}
				}
			case *ast.IncDecStmt:
				if se, ok := x.X.(*ast.SelectorExpr); ok && m.isRecv(se.X) {
					recv = true
				} else if id, ok := x.X.(*ast.Ident); ok && !declared[id.Name] && !seen[id.Name] {
					seen[id.Name] = true
					vars = append(vars, leanIdent(id.Name))
				}
			case *ast.CallExpr:
				if _, id, isMut := m.libMutCall(x); isMut {
					if !declared[id] && !seen[id] {
						seen[id] = true
						vars = append(vars, leanIdent(id))
					}
					break
				}
				if _, _, isOut := m.libOutFunc(x); isOut {
					for _, id := range m.mapArgs(x) {
						if !declared[id] && !seen[id] {
							seen[id] = true
							vars = append(vars, leanIdent(id))
						}
					}
					break
				}
				if outs := m.ownOut(x); len(outs) > 0 {
					for _, id := range outs {
						if !declared[id] && !seen[id] {
							seen[id] = true
							vars = append(vars, leanIdent(id))
						}
					}
					recv = true
					break
				}
				if _, _, isLib := m.libFunc(x); isLib {
					break
				}
				if tv, ok := m.g.info.Types[x.Fun]; ok && tv.IsType() {
					break
				}
				if id, ok := x.Fun.(*ast.Ident); ok {
					if _, isB := m.g.info.Uses[id].(*types.Builtin); isB {
						if id.Name == "delete" && len(x.Args) == 2 {
							if mid, ok := x.Args[0].(*ast.Ident); ok && mid.Name != m.recv && !declared[mid.Name] && !seen[mid.Name] {
								seen[mid.Name] = true
								vars = append(vars, leanIdent(mid.Name))
							}
						}
						break
					}
				}
				recv = true // any other call may reach the receiver (its own methods, the environment, a hook)
			}
			return true
		})
	}
	return
}

func declaredIn(stmts []ast.Stmt) map[string]bool {
	d := map[string]bool{}
	for _, s := range stmts {
		ast.Inspect(s, func(n ast.Node) bool {
			if a, ok := n.(*ast.AssignStmt); ok && a.Tok == token.DEFINE {
				for _, l := range a.Lhs {
					if id, ok := l.(*ast.Ident); ok {
						d[id.Name] = true
					}
				}
			}
			if _, ok := n.(*ast.FuncLit); ok {
				return false
			}
			return true
		})
	}
	return d
}

func usesAny(stmts []ast.Stmt, names map[string]bool) string {
	hit := ""
	for _, s := range stmts {
		ast.Inspect(s, func(n ast.Node) bool {
			if id, ok := n.(*ast.Ident); ok && names[id.Name] {
				hit = id.Name
			}
			return hit == ""
		})
	}
	return hit
}

func (m *mctx) flush(b *strings.Builder, ind string) {
	for _, p := range m.pre {
		b.WriteString(ind + p + "\n")
	}
	m.pre = nil
}

func tuple(xs []string) string {
	if len(xs) == 0 {
		return "()"
	}
	if len(xs) == 1 {
		return xs[0]
	}
	return "(" + strings.Join(xs, ", ") + ")"
}

// stmts translates a statement list; `tail` is the value of the block when control falls off its end.
func (m *mctx) stmts(list []ast.Stmt, tail func() string, ind string) string {
	var b strings.Builder
	for i, s := range list {
		rest := list[i+1:]
		if sw, ok := s.(*ast.SwitchStmt); ok {
			s = switchToIf(sw)
		}
		switch x := s.(type) {
		case *ast.ReturnStmt:
			if len(x.Results) == 1 && len(m.resTypes) > 1 {
				// `return f(…)` with f returning several values
				v := m.expr(x.Results[0])
				m.flush(&b, ind)
				var ns []string
				for range m.resTypes {
					ns = append(ns, m.fresh())
				}
				b.WriteString(fmt.Sprintf("%slet %s := %s;\n", ind, tuple(ns), v))
				x = &ast.ReturnStmt{Return: x.Return}
				saved := m.results
				m.results = ns
				defer func() { m.results = saved }()
			}
			vals := make([]string, len(x.Results))
			for j, r := range x.Results {
				if id, ok := r.(*ast.Ident); ok && id.Name == "nil" && j < len(m.resTypes) {
					vals[j] = zeroOf(m.resTypes[j])
					continue
				}
				if m.isRecv(r) {
					vals[j] = "()" // `return w` (fluent interface): the caller already holds the receiver
					continue
				}
				vals[j] = m.expr(r)
			}
			m.flush(&b, ind)
			if len(x.Results) == 0 {
				vals = append([]string{}, m.results...)
			}
			vals = append(vals, m.outParams...)
			if m.pure && m.loopState == nil && !m.retOpt {
				b.WriteString(ind + tuple(vals) + "\n")
				return b.String()
			}
			rv := tuple(vals)
			if m.panics {
				rv = "(some " + atomOf(rv) + ")"
			}
			if m.loopState != nil {
				b.WriteString(ind + "(GoSem.Ctl.ret " + atomOf(rv) + ", " + tuple(m.loopState) + ")\n")
				return b.String()
			}
			if m.panics && !m.retOpt {
				b.WriteString(ind + "(" + rv + ", " + leanIdent(m.recv) + ")\n")
				return b.String()
			}
			if m.retOpt {
				b.WriteString(ind + "some " + tuple(vals) + "\n")
				return b.String()
			}
			b.WriteString(ind + "(" + tuple(vals) + ", " + leanIdent(m.recv) + ")\n")
			return b.String()
		case *ast.BranchStmt:
			if m.loopState == nil || x.Label != nil {
				bad("%s outside a translated loop", x.Tok)
			}
			m.flush(&b, ind)
			switch x.Tok {
			case token.CONTINUE:
				b.WriteString(ind + "(GoSem.Ctl.next, " + tuple(m.loopState) + ")\n")
			case token.BREAK:
				b.WriteString(ind + "(GoSem.Ctl.brk, " + tuple(m.loopState) + ")\n")
			default:
				bad("%s", x.Tok)
			}
			return b.String()
		case *ast.ExprStmt:
			c, ok := x.X.(*ast.CallExpr)
			if !ok {
				bad("expression statement %T", x.X)
			}
			if once, body, ok := m.onceDo(c); ok {
				b.WriteString(m.onceBlock(once, body, ind))
				continue
			}
			if fn, id, ok := m.libMutCall(c); ok {
				parts := []string{fn, leanIdent(id)}
				for _, a := range c.Args {
					parts = append(parts, m.atom(a))
				}
				m.flush(&b, ind)
				b.WriteString(fmt.Sprintf("%slet %s := %s;\n", ind, leanIdent(id), strings.Join(parts, " ")))
				continue
			}
			if isPanicCall(c) {
				// `panic(v)`: the method ends here without a result (`none`); the value is not kept
				if !m.panics || m.retOpt {
					bad("panic in a context the translation does not cover")
				}
				m.flush(&b, ind)
				if m.loopState != nil {
					b.WriteString(ind + "(GoSem.Ctl.ret none, " + tuple(m.loopState) + ")\n")
				} else {
					b.WriteString(ind + "(none, " + leanIdent(m.recv) + ")\n")
				}
				return b.String()
			}
			if id, ok := c.Fun.(*ast.Ident); ok && id.Name == "delete" && len(c.Args) == 2 {
				if _, isB := m.g.info.Uses[id].(*types.Builtin); isB {
					if mid, ok := c.Args[0].(*ast.Ident); ok && !m.isRecv(mid) {
						k := m.atom(c.Args[1])
						m.flush(&b, ind)
						n := leanIdent(mid.Name)
						b.WriteString(fmt.Sprintf("%slet %s := GoSem.mapDel %s %s;\n", ind, n, n, k))
						continue
					}
					bad("delete on something that is not a local map")
				}
			}
			_ = m.expr(c)
			m.flush(&b, ind)
		case *ast.AssignStmt:
			b.WriteString(m.assign(x, ind))
		case *ast.IncDecStmt:
			one := &ast.BasicLit{Kind: token.INT, Value: "1"}
			tok := token.ADD_ASSIGN
			if x.Tok == token.DEC {
				tok = token.SUB_ASSIGN
			}
			_ = one
			b.WriteString(m.assignOp(x.X, tok, "1", ind))
		case *ast.IfStmt:
			if x.Init != nil {
				d := declaredIn([]ast.Stmt{x.Init})
				if hit := usesAny(rest, d); hit != "" {
					bad("%s declared in an if-initialiser is also a name used after the if", hit)
				}
				b.WriteString(m.stmts([]ast.Stmt{x.Init}, nil, ind))
			}
			cond := m.expr(x.Cond)
			m.flush(&b, ind)
			var els []ast.Stmt
			switch e := x.Else.(type) {
			case *ast.BlockStmt:
				els = e.List
			case *ast.IfStmt:
				els = []ast.Stmt{e}
			}
			if !m.jumps(x.Body) && (x.Else == nil || !m.jumps(x.Else)) {
				vars, recv := m.assigned(append(append([]ast.Stmt{}, x.Body.List...), els...))
				jv := vars
				if recv {
					jv = append([]string{leanIdent(m.recv)}, vars...)
				}
				if len(jv) == 0 {
					continue
				}
				jt := func() string { return tuple(jv) }
				b.WriteString(ind + "let " + tuple(jv) + " := (if " + cond + " then (\n")
				b.WriteString(m.stmts(x.Body.List, jt, ind+"    "))
				b.WriteString(ind + "  ) else (\n")
				b.WriteString(m.stmts(els, jt, ind+"    "))
				b.WriteString(ind + "  ));\n")
				continue
			}
			// some path returns: each branch continues with (a copy of) the rest of the block
			d := declaredIn(append(append([]ast.Stmt{}, x.Body.List...), els...))
			if hit := usesAny(rest, d); hit != "" && !m.alwaysJumps(x.Body.List) {
				bad("%s declared in a branch is also a name used after the if", hit)
			}
			b.WriteString(ind + "if " + cond + " then (\n")
			if m.alwaysJumps(x.Body.List) {
				b.WriteString(m.stmts(x.Body.List, tail, ind+"  "))
			} else {
				b.WriteString(m.stmts(append(append([]ast.Stmt{}, x.Body.List...), rest...), tail, ind+"  "))
			}
			b.WriteString(ind + ") else (\n")
			b.WriteString(m.stmts(append(append([]ast.Stmt{}, els...), rest...), tail, ind+"  "))
			b.WriteString(ind + ")\n")
			return b.String()
		case *ast.ForStmt:
			if post, ok := x.Post.(*ast.IncDecStmt); ok && post.Tok == token.DEC {
				b.WriteString(m.forRev(x, ind))
				continue
			}
			if x.Init == nil && x.Post == nil && x.Cond != nil {
				b.WriteString(m.forCond(x, rest, tail, ind))
				return b.String()
			}
			b.WriteString(m.forStep(x, rest, tail, ind))
			return b.String()
		case *ast.RangeStmt:
			// `for k, v := range E { … return … }` with a body that changes nothing: a search that may return early
			if m.retOpt {
				bad("nested range loops")
			}
			if txt, ok := m.rangeAssignBreak(x, ind); ok {
				b.WriteString(txt)
				continue
			}
			if vars, recv := m.assigned(x.Body.List); len(vars) > 0 || recv || hasBranch(x.Body) || m.loopState != nil {
				b.WriteString(m.rangeGeneral(x, vars, recv, rest, tail, ind))
				return b.String()
			}
			if x.Tok != token.DEFINE {
				bad("range with assignment to existing variables")
			}
			if !hasReturn(x.Body) {
				continue // no effects and no return: nothing happens
			}
			e := m.atom(x.X)
			m.flush(&b, ind)
			name := func(e ast.Expr) string {
				if e == nil {
					return "_"
				}
				if id, ok := e.(*ast.Ident); ok {
					return leanIdent(id.Name)
				}
				bad("range into a non-identifier")
				return ""
			}
			k, v := name(x.Key), name(x.Value)
			src := e
			switch m.g.info.Types[x.X].Type.Underlying().(type) {
			case *types.Map:
			case *types.Slice:
				src = "(GoSem.enum " + e + ")"
			default:
				bad("range over %s", m.g.info.Types[x.X].Type)
			}
			if hit := usesAny(rest, declaredIn(x.Body.List)); hit != "" {
				bad("%s declared in a loop body is also a name used after the loop", hit)
			}
			m.retOpt = true
			body := m.stmts(x.Body.List, func() string { return "none" }, ind+"    ")
			m.retOpt = false
			b.WriteString(fmt.Sprintf("%smatch GoSem.forRangeRet %s (fun (%s, %s) =>\n%s%s  ) with\n", ind, src, k, v, body, ind))
			b.WriteString(fmt.Sprintf("%s| some r_ => (r_, %s)\n%s| none => (\n", ind, leanIdent(m.recv), ind))
			b.WriteString(m.stmts(rest, tail, ind+"  "))
			b.WriteString(ind + ")\n")
			return b.String()
		case *ast.BlockStmt:
			if hit := usesAny(rest, declaredIn(x.List)); hit != "" {
				bad("%s declared in a block is also a name used after it", hit)
			}
			if m.jumps(x) {
				b.WriteString(m.stmts(append(append([]ast.Stmt{}, x.List...), rest...), tail, ind))
				return b.String()
			}
			b.WriteString(m.stmts(x.List, nil, ind))
		case *ast.DeclStmt:
			gd, ok := x.Decl.(*ast.GenDecl)
			if !ok || gd.Tok != token.VAR {
				bad("declaration statement")
			}
			for _, sp := range gd.Specs {
				vs := sp.(*ast.ValueSpec)
				for j, n := range vs.Names {
					t := m.g.leanType(m.g.info.Defs[n].Type())
					v := zeroOf(t)
					if j < len(vs.Values) {
						v = m.expr(vs.Values[j])
						m.flush(&b, ind)
					}
					b.WriteString(fmt.Sprintf("%slet %s : %s := %s;\n", ind, leanIdent(n.Name), t, v))
				}
			}
		case *ast.EmptyStmt:
		default:
			bad("statement %T", s)
		}
	}
	if tail != nil {
		b.WriteString(ind + tail() + "\n")
	}
	return b.String()
}

func (m *mctx) assignOp(lhs ast.Expr, tok token.Token, rhs string, ind string) string {
	var b strings.Builder
	m.flush(&b, ind)
	cur := m.expr(lhs)
	op := map[token.Token]string{token.ADD_ASSIGN: "+", token.SUB_ASSIGN: "-", token.MUL_ASSIGN: "*"}[tok]
	if op == "" {
		bad("assignment operator %s", tok)
	}
	if tok == token.ADD_ASSIGN && m.g.cfg.stringBytes {
		if tv, ok := m.g.info.Types[lhs]; ok {
			if bt, isB := tv.Type.Underlying().(*types.Basic); isB && bt.Info()&types.IsString != 0 {
				op = "++" // string concatenation
			}
		}
	}
	val := "(" + cur + " " + op + " " + rhs + ")"
	b.WriteString(m.store(lhs, val, ind))
	return b.String()
}

func (m *mctx) store(lhs ast.Expr, val string, ind string) string {
	switch l := lhs.(type) {
	case *ast.Ident:
		if l.Name == "_" {
			return ""
		}
		return fmt.Sprintf("%slet %s := %s;\n", ind, leanIdent(l.Name), val)
	case *ast.SelectorExpr:
		if m.isRecv(l.X) {
			if _, isEnv := m.envField(l); isEnv && !m.envValue {
				bad("assignment to the environment field %s", l.Sel.Name)
			}
			w := leanIdent(m.recv)
			return fmt.Sprintf("%slet %s := { %s with %s := %s };\n", ind, w, w, leanIdent(l.Sel.Name), val)
		}
	}
	if ix, ok := lhs.(*ast.IndexExpr); ok {
		if id, ok := ix.X.(*ast.Ident); ok && !m.isRecv(id) {
			if tv, ok := m.g.info.Types[ix.X]; ok {
				if _, isMap := tv.Type.Underlying().(*types.Map); isMap {
					n := leanIdent(id.Name)
					return fmt.Sprintf("%slet %s := GoSem.mapSet %s %s %s;\n", ind, n, n, m.atom(ix.Index), atomOf(val))
				}
				if _, isSl := tv.Type.Underlying().(*types.Slice); isSl {
					// `xs[i] = v` on a local slice. NOT represented: Go panics when i is out of range; `setIdx` then changes nothing
					n := leanIdent(id.Name)
					return fmt.Sprintf("%slet %s := GoSem.setIdx %s %s %s;\n", ind, n, n, m.atom(ix.Index), atomOf(val))
				}
			}
		}
		if fs, ok := ix.X.(*ast.SelectorExpr); ok && m.isRecv(fs.X) {
			if tv, ok := m.g.info.Types[ix.X]; ok {
				if _, isMap := tv.Type.Underlying().(*types.Map); isMap {
					w := leanIdent(m.recv)
					f := leanIdent(fs.Sel.Name)
					return fmt.Sprintf("%slet %s := { %s with %s := GoSem.mapSet %s.%s %s %s };\n", ind, w, w, f, w, f, m.atom(ix.Index), atomOf(val))
				}
			}
		}
	}
	if l, ok := lhs.(*ast.SelectorExpr); ok {
		if inner, ok := l.X.(*ast.SelectorExpr); ok {
			if id, ok := inner.X.(*ast.Ident); ok && !m.isRecv(id) {
				s1, s2 := m.g.info.Selections[inner], m.g.info.Selections[l]
				if s1 != nil && s2 != nil && s1.Kind() == types.FieldVal && s2.Kind() == types.FieldVal {
					key := fieldOwner(s1) + "." + inner.Sel.Name + "/" + fieldOwner(s2) + "." + l.Sel.Name
					if fn, ok := m.g.cfg.libFieldSet[key]; ok {
						return fmt.Sprintf("%slet %s := %s %s %s;\n", ind, leanIdent(id.Name), fn, leanIdent(id.Name), atomOf(val))
					}
					bad("assignment to %s: not in the table", key)
				}
			}
		}
		if id, ok := l.X.(*ast.Ident); ok && !m.isRecv(id) {
			if sel := m.g.info.Selections[l]; sel != nil && sel.Kind() == types.FieldVal {
				key := fieldOwner(sel) + "." + l.Sel.Name
				if fn, ok := m.g.cfg.libFieldSet[key]; ok {
					return fmt.Sprintf("%slet %s := %s %s %s;\n", ind, leanIdent(id.Name), fn, leanIdent(id.Name), atomOf(val))
				}
			}
		}
	}
	bad("assignment to %s", goExprText(lhs))
	return ""
}

func (m *mctx) assign(x *ast.AssignStmt, ind string) string {
	var b strings.Builder
	if x.Tok != token.ASSIGN && x.Tok != token.DEFINE {
		if len(x.Lhs) != 1 || len(x.Rhs) != 1 {
			bad("compound assignment with several operands")
		}
		rhs := m.expr(x.Rhs[0])
		b.WriteString(m.assignOp(x.Lhs[0], x.Tok, rhs, ind))
		return b.String()
	}
	// enc := json.NewEncoder(w.f): an object wrapped around an environment field
	if len(x.Lhs) == 1 && len(x.Rhs) == 1 && x.Tok == token.DEFINE {
		if ce, ok := x.Rhs[0].(*ast.CallExpr); ok && len(ce.Args) == 1 {
			if pre, ok := m.g.cfg.envCtors[m.pkgFuncName(ce)]; ok {
				f, isEnv := m.envField(ce.Args[0])
				id, isId := x.Lhs[0].(*ast.Ident)
				if !isEnv || !isId {
					bad("%s on something that is not an environment field", m.pkgFuncName(ce))
				}
				m.aliases[id.Name] = f
				m.aliasPre[id.Name] = pre
				return ""
			}
		}
	}
	// v, ok := m[k]
	if len(x.Lhs) == 2 && len(x.Rhs) == 1 {
		if ix, ok := x.Rhs[0].(*ast.IndexExpr); ok {
			if tv, ok := m.g.info.Types[ix.X]; ok {
				if _, isMap := tv.Type.Underlying().(*types.Map); isMap {
					mm, kk := m.atom(ix.X), m.atom(ix.Index)
					m.flush(&b, ind)
					names := make([]string, 2)
					for i, l := range x.Lhs {
						id, ok := l.(*ast.Ident)
						if !ok {
							bad("comma-ok map index into a non-identifier")
						}
						names[i] = leanIdent(id.Name)
					}
					b.WriteString(fmt.Sprintf("%slet (%s, %s) := GoSem.mapGet2 %s %s;\n", ind, names[0], names[1], mm, kk))
					return b.String()
				}
			}
		}
	}
	// v, ok := w.f.(I)
	if len(x.Lhs) == 2 && len(x.Rhs) == 1 {
		if ta, ok := x.Rhs[0].(*ast.TypeAssertExpr); ok {
			f, isEnv := m.envField(ta.X)
			if !isEnv {
				bad("type assertion on something that is not an environment field")
			}
			v, okv := x.Lhs[0].(*ast.Ident), x.Lhs[1].(*ast.Ident)
			if v == nil || okv == nil {
				bad("type assertion into non-identifiers")
			}
			iface := types.TypeString(m.g.info.Types[ta.Type].Type, func(p *types.Package) string { return p.Path() })
			if v.Name != "_" {
				m.aliases[v.Name] = f
			}
			if okv.Name != "_" {
				b.WriteString(fmt.Sprintf("%slet %s := %s.%s.implements %s;\n", ind, leanIdent(okv.Name), leanIdent(m.recv), leanIdent(f), leanStr(iface)))
			}
			return b.String()
		}
	}
	if len(x.Rhs) == 1 && len(x.Lhs) > 1 {
		// tuple assignment from one call
		v := m.expr(x.Rhs[0])
		m.flush(&b, ind)
		names := make([]string, len(x.Lhs))
		post := ""
		for i, l := range x.Lhs {
			id, ok := l.(*ast.Ident)
			if !ok {
				t := m.fresh()
				names[i] = t
				post += m.store(l, t, ind)
				continue
			}
			if id.Name == "_" {
				names[i] = "_"
			} else {
				names[i] = leanIdent(id.Name)
			}
		}
		b.WriteString(fmt.Sprintf("%slet %s := %s;\n", ind, tuple(names), v))
		b.WriteString(post)
		return b.String()
	}
	if len(x.Lhs) != len(x.Rhs) {
		bad("assignment with %d targets and %d values", len(x.Lhs), len(x.Rhs))
	}
	if len(x.Rhs) == 1 {
		if id, ok := x.Rhs[0].(*ast.Ident); ok {
			if tv, ok := m.g.info.Types[id]; ok && m.g.leanType(tv.Type) == "Env" {
				if _, isAlias := m.aliases[id.Name]; !isAlias {
					m.envValue = true
					defer func() { m.envValue = false }()
				}
			}
		}
	}
	vals := make([]string, len(x.Rhs))
	for i, r := range x.Rhs {
		vals[i] = m.expr(r)
	}
	m.flush(&b, ind)
	if len(vals) > 1 {
		// Go evaluates all right-hand sides first
		tmps := make([]string, len(vals))
		for i, v := range vals {
			tmps[i] = m.fresh()
			b.WriteString(fmt.Sprintf("%slet %s := %s;\n", ind, tmps[i], v))
		}
		vals = tmps
	}
	for i, l := range x.Lhs {
		b.WriteString(m.store(l, vals[i], ind))
	}
	return b.String()
}

// rangeGeneral: `for k, v := range E { body }` with a body that may assign outer variables, change the receiver, `continue`,
// `break` and `return`: a left fold over the entries that threads exactly those variables and stops at the first break or
// return (Code/GoSem.lean: `forRangeCtl`)
func (m *mctx) rangeGeneral(x *ast.RangeStmt, vars []string, recv bool, rest []ast.Stmt, tail func() string, ind string) string {
	if x.Tok != token.DEFINE && (x.Key != nil || x.Value != nil) {
		bad("range with assignment to existing variables")
	}
	name := func(e ast.Expr) string {
		if e == nil {
			return "_"
		}
		if id, ok := e.(*ast.Ident); ok {
			return leanIdent(id.Name)
		}
		bad("range into a non-identifier")
		return ""
	}
	var b strings.Builder
	e := m.atom(x.X)
	m.flush(&b, ind)
	src := e
	switch m.g.info.Types[x.X].Type.Underlying().(type) {
	case *types.Map:
	case *types.Slice:
		src = "(GoSem.enum " + e + ")"
	default:
		bad("range over %s", m.g.info.Types[x.X].Type)
	}
	b.WriteString(m.loopGeneral(src, name(x.Key), name(x.Value), x.Body, vars, recv, rest, tail, ind))
	return b.String()
}

// forStep: `for i := A; i < B; i += S { body }` (also `i++`, `<=`): a general loop over the indices A, A+S, … below B.
// The bound is evaluated once: the body must not assign anything the bound mentions.
func (m *mctx) forStep(x *ast.ForStmt, rest []ast.Stmt, tail func() string, ind string) string {
	fail := func(why string) { bad("a for loop outside the translated shapes (%s)", why) }
	init, ok := x.Init.(*ast.AssignStmt)
	if !ok || init.Tok != token.DEFINE || len(init.Lhs) != 1 || len(init.Rhs) != 1 {
		fail("init")
	}
	idx, ok := init.Lhs[0].(*ast.Ident)
	if !ok {
		fail("init")
	}
	cond, ok := x.Cond.(*ast.BinaryExpr)
	if !ok || (cond.Op != token.LSS && cond.Op != token.LEQ) || goExprText(cond.X) != idx.Name {
		fail("condition")
	}
	step := "1"
	switch p := x.Post.(type) {
	case *ast.IncDecStmt:
		if p.Tok != token.INC || goExprText(p.X) != idx.Name {
			fail("post")
		}
	case *ast.AssignStmt:
		if p.Tok != token.ADD_ASSIGN || len(p.Lhs) != 1 || goExprText(p.Lhs[0]) != idx.Name {
			fail("post")
		}
		tv := m.g.info.Types[p.Rhs[0]]
		if tv.Value == nil {
			fail("step is not a constant")
		}
		step = tv.Value.ExactString()
	default:
		fail("post")
	}
	vars, recv := m.assigned(x.Body.List)
	names := map[string]bool{idx.Name: true}
	for _, v := range vars {
		names[strings.Trim(v, "«»")] = true
	}
	if hit := usesAny([]ast.Stmt{&ast.ExprStmt{X: cond.Y}}, names); hit != "" {
		fail("the bound mentions " + hit + ", which the body assigns")
	}
	for _, v := range vars {
		if strings.Trim(v, "«»") == idx.Name {
			fail("the body assigns the index")
		}
	}
	var b strings.Builder
	a, bnd := m.atom(init.Rhs[0]), m.atom(cond.Y)
	m.flush(&b, ind)
	if cond.Op == token.LEQ {
		bnd = "(" + bnd + " + 1)"
	}
	src := fmt.Sprintf("((GoSem.rangeStep %s %s %s).map fun i_ => (i_, i_))", a, bnd, step)
	b.WriteString(m.loopGeneral(src, leanIdent(idx.Name), "_", x.Body, vars, recv, rest, tail, ind))
	return b.String()
}

// loopGeneral: the common emission of range loops and index loops
func (m *mctx) loopGeneral(src, kname, vname string, bodyStmt *ast.BlockStmt, vars []string, recv bool, rest []ast.Stmt, tail func() string, ind string) string {
	var b strings.Builder
	x := struct{ Body *ast.BlockStmt }{bodyStmt}
	state := append([]string{}, vars...)
	if recv {
		state = append([]string{leanIdent(m.recv)}, state...)
	}
	st := tuple(state)
	saved, savedOpt := m.loopState, m.retOpt
	m.loopState, m.retOpt = state, false
	if len(state) == 0 {
		m.loopState = []string{}
	}
	body := m.stmts(x.Body.List, func() string { return "(GoSem.Ctl.next, " + st + ")" }, ind+"    ")
	m.loopState, m.retOpt = saved, savedOpt
	rho := m.retType
	if rho == "" {
		rho = "Unit"
	}
	b.WriteString(fmt.Sprintf("%slet (ctl_, %s) := GoSem.forRangeCtl (ρ := %s) %s (fun (%s, %s) %s =>\n%s%s  ) %s;\n",
		ind, st, rho, src, kname, vname, st, body, ind, st))
	if !hasReturn(x.Body) {
		b.WriteString(m.stmts(rest, tail, ind))
		return b.String()
	}
	var onRet string
	switch {
	case saved != nil:
		onRet = "(GoSem.Ctl.ret r_, " + tuple(saved) + ")"
	case savedOpt:
		onRet = "some r_"
	case m.pure:
		onRet = "r_"
	default:
		onRet = "(r_, " + leanIdent(m.recv) + ")"
	}
	b.WriteString(fmt.Sprintf("%smatch ctl_ with\n%s| GoSem.Ctl.ret r_ => %s\n%s| _ => (\n", ind, ind, onRet, ind))
	b.WriteString(m.stmts(rest, tail, ind+"  "))
	b.WriteString(ind + ")\n")
	return b.String()
}

// forCond: `for cond { body }` — a left-to-right iteration of the body on the variables it assigns while cond holds, on
// fuel (cfg.loopFuel names the bound; GoSem.whileFuel answers `none` when it does not suffice, and so does the method: the
// refinement theorem of the method shows that it does)
func (m *mctx) forCond(x *ast.ForStmt, rest []ast.Stmt, tail func() string, ind string) string {
	fuel, ok := m.g.cfg.loopFuel[m.name]
	if !ok {
		bad("a `for cond` loop without a configured bound")
	}
	if !m.panics || m.retOpt || m.loopState != nil {
		bad("a `for cond` loop in a context the translation does not cover")
	}
	vars, recv := m.assigned(x.Body.List)
	state := append([]string{}, vars...)
	if recv {
		state = append([]string{leanIdent(m.recv)}, state...)
	}
	st := tuple(state)
	if len(state) == 0 {
		st = "()"
	}
	cond := m.expr(x.Cond)
	if len(m.pre) > 0 {
		bad("a loop condition with effects")
	}
	saved := m.loopState
	m.loopState = state
	if len(state) == 0 {
		m.loopState = []string{}
	}
	body := m.stmts(x.Body.List, func() string { return "(GoSem.Ctl.next, " + st + ")" }, ind+"    ")
	m.loopState = saved
	var b strings.Builder
	b.WriteString(fmt.Sprintf("%smatch GoSem.whileFuel (ρ := %s) %s (fun %s => %s) (fun %s =>\n%s%s  ) %s with\n", ind, m.retType, fuel, st, cond, st, body, ind, st))
	b.WriteString(fmt.Sprintf("%s| none => (none, %s)\n", ind, leanIdent(m.recv)))
	b.WriteString(fmt.Sprintf("%s| some (ctl_, %s) =>\n", ind, st))
	if hasReturn(x.Body) {
		b.WriteString(fmt.Sprintf("%s  match ctl_ with\n%s  | GoSem.Ctl.ret r_ => (r_, %s)\n%s  | _ => (\n", ind, ind, leanIdent(m.recv), ind))
		b.WriteString(m.stmts(rest, tail, ind+"    "))
		b.WriteString(ind + "  )\n")
	} else {
		b.WriteString(m.stmts(rest, tail, ind+"  "))
	}
	return b.String()
}

// rangeAssignBreak recognises the search idiom
//
//	for k, v := range E { if COND { x = EXPR; break } }
//
// (nothing else in the body, COND and EXPR without effects): `x` becomes EXPR for the first entry, in iteration order,
// that satisfies COND, and keeps its value when there is none.
func (m *mctx) rangeAssignBreak(x *ast.RangeStmt, ind string) (string, bool) {
	if x.Tok != token.DEFINE || len(x.Body.List) != 1 {
		return "", false
	}
	ifs, ok := x.Body.List[0].(*ast.IfStmt)
	if !ok || ifs.Init != nil || ifs.Else != nil || len(ifs.Body.List) != 2 {
		return "", false
	}
	as, ok := ifs.Body.List[0].(*ast.AssignStmt)
	br, ok2 := ifs.Body.List[1].(*ast.BranchStmt)
	if !ok || !ok2 || br.Tok != token.BREAK || br.Label != nil || as.Tok != token.ASSIGN || len(as.Lhs) != 1 || len(as.Rhs) != 1 {
		return "", false
	}
	target, ok := as.Lhs[0].(*ast.Ident)
	if !ok {
		return "", false
	}
	name := func(e ast.Expr) string {
		if e == nil {
			return "_"
		}
		if id, ok := e.(*ast.Ident); ok {
			return leanIdent(id.Name)
		}
		bad("range into a non-identifier")
		return ""
	}
	var b strings.Builder
	e := m.atom(x.X)
	m.flush(&b, ind)
	src := e
	switch m.g.info.Types[x.X].Type.Underlying().(type) {
	case *types.Map:
	case *types.Slice:
		src = "(GoSem.enum " + e + ")"
	default:
		return "", false
	}
	n0 := len(m.pre)
	cond := m.expr(ifs.Cond)
	val := m.expr(as.Rhs[0])
	if len(m.pre) != n0 {
		bad("a call with effects inside a range loop")
	}
	t := leanIdent(target.Name)
	b.WriteString(fmt.Sprintf("%slet %s := (match GoSem.forRangeRet %s (fun (%s, %s) => if %s then some %s else none) with\n%s  | some r_ => r_\n%s  | none => %s);\n",
		ind, t, src, name(x.Key), name(x.Value), cond, val, ind, ind, t))
	return b.String(), true
}

// onceDo recognises w.f.Do(func() { … }) with f a sync.Once field
func (m *mctx) onceDo(c *ast.CallExpr) (field string, body *ast.BlockStmt, ok bool) {
	se, isSel := c.Fun.(*ast.SelectorExpr)
	if !isSel || se.Sel.Name != "Do" || len(c.Args) != 1 {
		return
	}
	fs, isF := se.X.(*ast.SelectorExpr)
	if !isF || !m.isRecv(fs.X) {
		return
	}
	tv, has := m.g.info.Types[fs]
	if !has || m.g.leanType(tv.Type) != "Once" {
		return
	}
	fl, isLit := c.Args[0].(*ast.FuncLit)
	if !isLit {
		bad("sync.Once.Do with something that is not a function literal")
	}
	return fs.Sel.Name, fl.Body, true
}

func (m *mctx) onceBlock(field string, body *ast.BlockStmt, ind string) string {
	w := leanIdent(m.recv)
	f := leanIdent(field)
	var b strings.Builder
	// the closure's own `return` leaves the closure only: it is translated as a function of the receiver
	saved := m.results
	m.results = nil
	b.WriteString(fmt.Sprintf("%slet %s := (if %s.%s then %s else (\n", ind, w, w, f, w))
	b.WriteString(fmt.Sprintf("%s    let (_, %s) := ((fun (%s : %s) =>\n", ind, w, w, m.g.cfg.recvType))
	b.WriteString(m.stmts(body.List, func() string { return "((), " + w + ")" }, ind+"      "))
	b.WriteString(fmt.Sprintf("%s      : %s → Unit × %s) %s);\n", ind, m.g.cfg.recvType, m.g.cfg.recvType, w))
	b.WriteString(fmt.Sprintf("%s    { %s with %s := true }));\n", ind, w, f))
	m.results = saved
	return b.String()
}

// forRev recognises `for i := len(S) - 1; i >= 0; i-- { body }` where body uses i only as S[i]
func (m *mctx) forRev(x *ast.ForStmt, ind string) string {
	fail := func() { bad("a for loop outside the idiom `for i := len(s) - 1; i >= 0; i--`") }
	init, ok := x.Init.(*ast.AssignStmt)
	if !ok || init.Tok != token.DEFINE || len(init.Lhs) != 1 || len(init.Rhs) != 1 {
		fail()
	}
	idx, ok := init.Lhs[0].(*ast.Ident)
	if !ok {
		fail()
	}
	be, ok := init.Rhs[0].(*ast.BinaryExpr)
	if !ok || be.Op != token.SUB {
		fail()
	}
	if tv := m.g.info.Types[be.Y]; tv.Value == nil || tv.Value.ExactString() != "1" {
		fail()
	}
	lc, ok := be.X.(*ast.CallExpr)
	if !ok || len(lc.Args) != 1 {
		fail()
	}
	if id, ok := lc.Fun.(*ast.Ident); !ok || id.Name != "len" {
		fail()
	}
	cond, ok := x.Cond.(*ast.BinaryExpr)
	if !ok || cond.Op != token.GEQ || goExprText(cond.X) != idx.Name {
		fail()
	}
	if tv := m.g.info.Types[cond.Y]; tv.Value == nil || tv.Value.ExactString() != "0" {
		fail()
	}
	post, ok := x.Post.(*ast.IncDecStmt)
	if !ok || post.Tok != token.DEC || goExprText(post.X) != idx.Name {
		fail()
	}
	if hasReturn(x.Body) {
		bad("return inside a loop")
	}
	ast.Inspect(x.Body, func(n ast.Node) bool {
		if br, ok := n.(*ast.BranchStmt); ok {
			bad("%s inside a loop", br.Tok)
		}
		return true
	})
	vars, _ := m.assigned(x.Body.List)
	if len(vars) > 0 {
		bad("a loop body that assigns outer variables (%s)", strings.Join(vars, ", "))
	}
	sl := m.expr(lc.Args[0])
	w := leanIdent(m.recv)
	oIdx, oSl, oEl := m.loopIdx, m.loopSl, m.loopElem
	m.loopIdx, m.loopSl, m.loopElem = idx.Name, goExprText(lc.Args[0]), "elem_"+idx.Name
	var b strings.Builder
	m.flush(&b, ind)
	b.WriteString(fmt.Sprintf("%slet %s := forEachRev %s (fun %s (%s : %s) =>\n", ind, w, sl, m.loopElem, w, m.g.cfg.recvType))
	b.WriteString(m.stmts(x.Body.List, func() string { return w }, ind+"    "))
	b.WriteString(fmt.Sprintf("%s  ) %s;\n", ind, w))
	m.loopIdx, m.loopSl, m.loopElem = oIdx, oSl, oEl
	return b.String()
}

// ---- one type ---------------------------------------------------------------------------------------------------------

type methodOut struct {
	name  string
	text  string
	calls map[string]bool
	pos   token.Pos
}

func translateType(repo string, cfg codeCfg) (string, error) {
	pcfg := &packages.Config{
		Mode: packages.NeedName | packages.NeedFiles | packages.NeedCompiledGoFiles | packages.NeedImports | packages.NeedTypes | packages.NeedSyntax | packages.NeedTypesInfo,
		Dir:  repo,
		Env:  append(os.Environ(), "GOFLAGS=-mod=mod", "GOPROXY=off", "GOSUMDB=off", "GOTOOLCHAIN=local", "CGO_ENABLED=0"),
	}
	pkgs, err := packages.Load(pcfg, cfg.pkg)
	if err != nil || len(pkgs) != 1 || len(pkgs[0].Errors) > 0 || pkgs[0].Types == nil {
		return "", fmt.Errorf("package %s could not be type-checked", cfg.pkg)
	}
	pkg := pkgs[0]
	obj := pkg.Types.Scope().Lookup(cfg.recvType)
	if obj == nil {
		return "", fmt.Errorf("type %s not found", cfg.recvType)
	}
	named, ok := obj.Type().(*types.Named)
	if !ok {
		return "", fmt.Errorf("%s is not a named type", cfg.recvType)
	}
	st, ok := named.Underlying().(*types.Struct)
	if !ok {
		return "", fmt.Errorf("%s is not a struct", cfg.recvType)
	}
	g := &goTranslator{cfg: cfg, pkg: pkg, info: pkg.TypesInfo, recvT: named, st: st, decls: map[string]*ast.FuncDecl{}, panicky: map[string]bool{}}
	for _, file := range pkg.Syntax {
		for _, d := range file.Decls {
			if fd, ok := d.(*ast.FuncDecl); ok && fd.Recv != nil && len(fd.Recv.List) == 1 {
				rt := g.info.Types[fd.Recv.List[0].Type].Type
				if p, ok := rt.(*types.Pointer); ok {
					rt = p.Elem()
				}
				if rt == types.Type(named) {
					g.decls[fd.Name.Name] = fd
					if fd.Body != nil {
						ast.Inspect(fd.Body, func(n ast.Node) bool {
							if _, isLit := n.(*ast.FuncLit); isLit {
								return false
							}
							if es, ok := n.(*ast.ExprStmt); ok && isPanicCall(es.X) {
								g.panicky[fd.Name.Name] = true
							}
							if fs, ok := n.(*ast.ForStmt); ok && fs.Init == nil && fs.Post == nil && fs.Cond != nil {
								// a `for cond { … }` loop runs on fuel: running out of it is the result `none`, as a panic is
								g.panicky[fd.Name.Name] = true
							}
							return true
						})
					}
				}
			}
		}
	}

	var out strings.Builder
	for _, im := range cfg.imports {
		out.WriteString("import " + im + "\n")
	}
	out.WriteString("namespace " + cfg.namespace + "\nopen Flamego.GoSem\n\n")

	// the structure
	var structErr error
	func() {
		defer func() {
			if r := recover(); r != nil {
				if u, ok := r.(unsupported); ok {
					structErr = fmt.Errorf("struct %s: %s", cfg.recvType, u.why)
					return
				}
				panic(r)
			}
		}()
		for _, sn := range cfg.structs {
			so := pkg.Types.Scope().Lookup(sn)
			if so == nil {
				bad("type %s not found", sn)
			}
			sst, ok := so.Type().Underlying().(*types.Struct)
			if !ok {
				bad("%s is not a struct", sn)
			}
			out.WriteString(fmt.Sprintf("/-- `type %s struct` of the source, field by field -/\nstructure %s where\n", sn, sn))
			for i := 0; i < sst.NumFields(); i++ {
				f := sst.Field(i)
				out.WriteString(fmt.Sprintf("  %s : %s\n", leanIdent(f.Name()), g.fieldType(f.Type())))
			}
			out.WriteString("  deriving Inhabited\n\n")
		}
		out.WriteString(fmt.Sprintf("/-- `type %s struct` of the source, field by field -/\nstructure %s where\n", cfg.recvType, cfg.recvType))
		for i := 0; i < st.NumFields(); i++ {
			f := st.Field(i)
			out.WriteString(fmt.Sprintf("  %s : %s\n", leanIdent(f.Name()), g.fieldType(f.Type())))
		}
		for _, gf := range cfg.ghostFields {
			out.WriteString(fmt.Sprintf("  %s : %s   -- NOT a field of the Go struct: a modelling device (see the emitter)\n", gf[0], gf[1]))
		}
		out.WriteString("  deriving Inhabited\n\n")
		// one environment-call helper per field of interface type
		for i := 0; i < st.NumFields(); i++ {
			f := st.Field(i)
			if g.fieldType(f.Type()) == "Env" {
				n := leanIdent(f.Name())
				out.WriteString(fmt.Sprintf("/-- a call of a method of the environment object `%s` -/\ndef envCall_%s (w : %s) (m : String) (args : List Arg) : (Int × Int) × %s :=\n  let (r, e) := w.%s.call m args;\n  (r, { w with %s := e })\n\n",
					f.Name(), f.Name(), cfg.recvType, cfg.recvType, n, n))
			}
		}
	}()
	if structErr != nil {
		return "", structErr
	}
	out.WriteString(cfg.prelude + "\n")

	// methods
	var methods []*methodOut
	untranslated := map[string]string{}
	for _, file := range pkg.Syntax {
		for _, d := range file.Decls {
			fd, ok := d.(*ast.FuncDecl)
			if !ok || fd.Recv == nil || len(fd.Recv.List) != 1 || fd.Body == nil {
				continue
			}
			rt := g.info.Types[fd.Recv.List[0].Type].Type
			if p, ok := rt.(*types.Pointer); ok {
				rt = p.Elem()
			}
			if rt != types.Type(named) {
				continue
			}
			if why, skip := cfg.skip[fd.Name.Name]; skip {
				untranslated[fd.Name.Name] = why
				continue
			}
			mo, err := g.method(fd)
			if err != nil {
				untranslated[fd.Name.Name] = err.Error()
				continue
			}
			methods = append(methods, mo)
		}
	}
	// package-level pure functions
	var pureNames []string
	for _, fnm := range cfg.funcs {
		var found *ast.FuncDecl
		for _, file := range pkg.Syntax {
			for _, d := range file.Decls {
				if fd, ok := d.(*ast.FuncDecl); ok && fd.Recv == nil && fd.Name.Name == fnm {
					found = fd
				}
			}
		}
		if found == nil {
			untranslated[fnm] = "function not found"
			continue
		}
		txt, err := g.funcPure(found)
		if err != nil {
			untranslated[fnm] = err.Error()
			continue
		}
		out.WriteString(txt + "\n")
		pureNames = append(pureNames, fnm)
	}
	// constructors: `func F(params) R { return &T{k: v, …} }` — the fields not named get their zero value
	for _, cn := range cfg.ctors {
		var found *ast.FuncDecl
		for _, file := range pkg.Syntax {
			for _, d := range file.Decls {
				if fd, ok := d.(*ast.FuncDecl); ok && fd.Recv == nil && fd.Name.Name == cn {
					found = fd
				}
			}
		}
		if found == nil {
			untranslated[cn] = "function not found"
			continue
		}
		txt, err := g.ctor(found)
		if err != nil {
			untranslated[cn] = err.Error()
			continue
		}
		out.WriteString(txt + "\n")
	}
	// callees first; a method that calls an untranslated one is untranslated too
	byName := map[string]*methodOut{}
	for _, mo := range methods {
		byName[mo.name] = mo
	}
	changed := true
	for changed {
		changed = false
		for n, mo := range byName {
			for c := range mo.calls {
				if _, ok := byName[c]; !ok {
					untranslated[n] = "calls " + c + ", which is not translated"
					delete(byName, n)
					changed = true
					break
				}
			}
		}
	}
	var order []string
	state := map[string]int{}
	var visit func(n string) error
	visit = func(n string) error {
		switch state[n] {
		case 1:
			return fmt.Errorf("recursion through %s", n)
		case 2:
			return nil
		}
		state[n] = 1
		cs := make([]string, 0)
		for c := range byName[n].calls {
			cs = append(cs, c)
		}
		sort.Strings(cs)
		for _, c := range cs {
			if err := visit(c); err != nil {
				return err
			}
		}
		state[n] = 2
		order = append(order, n)
		return nil
	}
	names := make([]string, 0, len(byName))
	for n := range byName {
		names = append(names, n)
	}
	sort.Slice(names, func(i, j int) bool { return byName[names[i]].pos < byName[names[j]].pos })
	for _, n := range names {
		if err := visit(n); err != nil {
			return "", err
		}
	}
	for _, n := range order {
		out.WriteString(byName[n].text + "\n")
	}
	un := make([]string, 0, len(untranslated))
	for n := range untranslated {
		un = append(un, n)
	}
	sort.Strings(un)
	out.WriteString("/-- methods of the type that are NOT translated, with the reason -/\ndef untranslated : List (_root_.String × _root_.String) := [\n")
	for i, n := range un {
		sep := ","
		if i == len(un)-1 {
			sep = ""
		}
		out.WriteString(fmt.Sprintf("  (%s, %s)%s\n", leanStr(n), leanStr(untranslated[n]), sep))
	}
	out.WriteString("]\n\n/-- the translated methods, in the order of this file -/\ndef translated : List _root_.String := [")
	q := make([]string, 0, len(order)+len(pureNames))
	for _, n := range pureNames {
		q = append(q, leanStr(n))
	}
	for _, n := range order {
		q = append(q, leanStr(n))
	}
	out.WriteString(strings.Join(q, ", ") + "]\n\nend " + cfg.namespace + "\n")
	return out.String(), nil
}

func (g *goTranslator) method(fd *ast.FuncDecl) (mo *methodOut, err error) {
	defer func() {
		if r := recover(); r != nil {
			if u, ok := r.(unsupported); ok {
				mo, err = nil, fmt.Errorf("%s", u.why)
				return
			}
			panic(r)
		}
	}()
	recvNames := fd.Recv.List[0].Names
	if len(recvNames) != 1 {
		bad("anonymous receiver")
	}
	m := &mctx{g: g, recv: recvNames[0].Name, name: fd.Name.Name, aliases: map[string]string{}, aliasPre: map[string]string{}, calls: map[string]bool{}}
	w := leanIdent(m.recv)
	var params []string
	for _, f := range fd.Type.Params.List {
		t := g.leanTypeAtom(g.info.Types[f.Type].Type)
		if len(f.Names) == 0 {
			bad("unnamed parameter")
		}
		for _, n := range f.Names {
			params = append(params, fmt.Sprintf("(%s : %s)", leanIdent(n.Name), t))
		}
	}
	var resT []string
	var initRes strings.Builder
	if fd.Type.Results != nil {
		for _, f := range fd.Type.Results.List {
			t := g.leanType(g.info.Types[f.Type].Type)
			if t == "Env" && len(fd.Type.Results.List) == 1 && len(f.Names) == 0 && returnsOnlyReceiver(fd, m.recv) {
				t = "Unit" // a fluent method (`return w` as an interface the receiver implements)
			}
			if len(f.Names) == 0 {
				resT = append(resT, t)
				continue
			}
			for _, n := range f.Names {
				resT = append(resT, t)
				m.results = append(m.results, leanIdent(n.Name))
				initRes.WriteString(fmt.Sprintf("  let %s : %s := %s;\n", leanIdent(n.Name), t, zeroOf(t)))
			}
		}
	}
	m.resTypes = append([]string{}, resT...)
	// a map parameter the body stores into: the caller sees the stores in Go; here the map after the call is an extra result
	{
		mut := map[int]bool{}
		for _, i := range g.mutatedMapParams(fd, map[string]bool{}) {
			mut[i] = true
		}
		k := 0
		for _, f := range fd.Type.Params.List {
			if len(f.Names) == 0 {
				k++
				continue
			}
			for _, n := range f.Names {
				if mut[k] {
					m.outParams = append(m.outParams, leanIdent(n.Name))
					resT = append(resT, g.leanType(g.info.Types[f.Type].Type))
				}
				k++
			}
		}
	}
	m.nres = len(resT)
	ret := "Unit"
	if len(resT) > 0 {
		ret = strings.Join(resT, " × ")
		if len(resT) > 1 {
			ret = "(" + ret + ")"
		}
	}
	if g.panicky[fd.Name.Name] {
		m.panics = true
		if strings.Contains(ret, " ") && !strings.HasPrefix(ret, "(") {
			ret = "(" + ret + ")"
		}
		ret = "Option " + ret
	}
	m.retType = ret
	tail := func() string {
		if len(resT) > 0 && len(m.results) == 0 {
			bad("control reaches the end of a function with unnamed results")
		}
		if m.panics {
			return "(some " + atomOf(tuple(append(append([]string{}, m.results...), m.outParams...))) + ", " + w + ")"
		}
		return "(" + tuple(append(append([]string{}, m.results...), m.outParams...)) + ", " + w + ")"
	}
	body := m.stmts(fd.Body.List, tail, "  ")
	var b strings.Builder
	pos := g.pkg.Fset.Position(fd.Pos())
	b.WriteString(fmt.Sprintf("/-- `func (%s *%s) %s` (%s:%d) -/\n", m.recv, g.cfg.recvType, fd.Name.Name, relBase(pos.Filename), pos.Line))
	sp := ""
	if len(params) > 0 {
		sp = " " + strings.Join(params, " ")
	}
	b.WriteString(fmt.Sprintf("def %s (%s : %s)%s : %s × %s :=\n", leanIdent(fd.Name.Name), w, g.cfg.recvType, sp, ret, g.cfg.recvType))
	b.WriteString(initRes.String())
	b.WriteString(body)
	return &methodOut{name: fd.Name.Name, text: b.String(), calls: m.calls, pos: fd.Pos()}, nil
}

// funcPure: a package-level function without effects, as a function of its arguments
func (g *goTranslator) funcPure(fd *ast.FuncDecl) (txt string, err error) {
	defer func() {
		if r := recover(); r != nil {
			if u, ok := r.(unsupported); ok {
				txt, err = "", fmt.Errorf("%s", u.why)
				return
			}
			panic(r)
		}
	}()
	m := &mctx{g: g, recv: "\x00", aliases: map[string]string{}, aliasPre: map[string]string{}, calls: map[string]bool{}, pure: true, plainPtr: map[string]bool{}}
	var params []string
	for _, f := range fd.Type.Params.List {
		pt := g.info.Types[f.Type].Type
		if p, ok := pt.(*types.Pointer); ok && g.cfg.ptrOption {
			pt = p.Elem()
			for _, n := range f.Names {
				m.plainPtr[n.Name] = true
			}
		}
		t := g.leanTypeAtom(pt)
		for _, n := range f.Names {
			params = append(params, fmt.Sprintf("(%s : %s)", leanIdent(n.Name), t))
		}
	}
	var resT []string
	var initRes strings.Builder
	if fd.Type.Results != nil {
		for _, f := range fd.Type.Results.List {
			t := g.leanType(g.info.Types[f.Type].Type)
			if len(f.Names) == 0 {
				resT = append(resT, t)
				continue
			}
			for _, n := range f.Names {
				resT = append(resT, t)
				m.results = append(m.results, leanIdent(n.Name))
				initRes.WriteString(fmt.Sprintf("  let %s : %s := %s;\n", leanIdent(n.Name), t, zeroOf(t)))
			}
		}
	}
	ret := "Unit"
	if len(resT) > 0 {
		ret = strings.Join(resT, " × ")
	}
	m.retType = ret
	m.resTypes = resT
	tail := func() string {
		if len(resT) > 0 && len(m.results) == 0 {
			bad("control reaches the end of a function with unnamed results")
		}
		return tuple(m.results)
	}
	body := m.stmts(fd.Body.List, tail, "  ")
	if len(m.calls) > 0 {
		bad("a pure function that calls methods")
	}
	pos := g.pkg.Fset.Position(fd.Pos())
	return fmt.Sprintf("/-- `func %s` (%s:%d) -/\ndef %s %s : %s :=\n%s%s", fd.Name.Name, relBase(pos.Filename), pos.Line,
		leanIdent(fd.Name.Name), strings.Join(params, " "), ret, initRes.String(), body), nil
}

func (g *goTranslator) ctor(fd *ast.FuncDecl) (txt string, err error) {
	defer func() {
		if r := recover(); r != nil {
			if u, ok := r.(unsupported); ok {
				txt, err = "", fmt.Errorf("%s", u.why)
				return
			}
			panic(r)
		}
	}()
	if fd.Body == nil || len(fd.Body.List) != 1 {
		bad("constructor body is not a single return statement")
	}
	ret, ok := fd.Body.List[0].(*ast.ReturnStmt)
	if !ok || len(ret.Results) != 1 {
		bad("constructor body is not a single return statement")
	}
	u, ok := ret.Results[0].(*ast.UnaryExpr)
	if !ok || u.Op != token.AND {
		bad("constructor does not return &%s{…}", g.cfg.recvType)
	}
	cl, ok := u.X.(*ast.CompositeLit)
	if !ok || g.info.Types[cl].Type != types.Type(g.recvT) {
		bad("constructor does not return &%s{…}", g.cfg.recvType)
	}
	m := &mctx{g: g, recv: "\x00", aliases: map[string]string{}, aliasPre: map[string]string{}, calls: map[string]bool{}}
	var params []string
	for _, f := range fd.Type.Params.List {
		t := g.leanTypeAtom(g.info.Types[f.Type].Type)
		for _, n := range f.Names {
			params = append(params, fmt.Sprintf("(%s : %s)", leanIdent(n.Name), t))
		}
	}
	given := map[string]string{}
	for _, el := range cl.Elts {
		kv, ok := el.(*ast.KeyValueExpr)
		if !ok {
			bad("positional composite literal")
		}
		k, ok := kv.Key.(*ast.Ident)
		if !ok {
			bad("composite literal key")
		}
		given[k.Name] = m.expr(kv.Value)
		if len(m.pre) > 0 {
			bad("a call with effects inside a composite literal")
		}
	}
	var fs []string
	for i := 0; i < g.st.NumFields(); i++ {
		f := g.st.Field(i)
		v, ok := given[f.Name()]
		if !ok {
			v = zeroOf(g.leanType(f.Type()))
		}
		fs = append(fs, fmt.Sprintf("%s := %s", leanIdent(f.Name()), v))
	}
	pos := g.pkg.Fset.Position(fd.Pos())
	return fmt.Sprintf("/-- `func %s` (%s:%d) -/\ndef %s %s : %s :=\n  { %s }\n", fd.Name.Name, relBase(pos.Filename), pos.Line,
		leanIdent(fd.Name.Name), strings.Join(params, " "), g.cfg.recvType, strings.Join(fs, ", ")), nil
}

// returnsOnlyReceiver: every return statement of the method returns the receiver variable
func returnsOnlyReceiver(fd *ast.FuncDecl, recv string) bool {
	ok, any := true, false
	ast.Inspect(fd.Body, func(n ast.Node) bool {
		if _, isLit := n.(*ast.FuncLit); isLit {
			return false
		}
		if r, isRet := n.(*ast.ReturnStmt); isRet {
			any = true
			if len(r.Results) != 1 {
				ok = false
			} else if id, isId := r.Results[0].(*ast.Ident); !isId || id.Name != recv {
				ok = false
			}
		}
		return true
	})
	return ok && any
}

func relBase(p string) string {
	if i := strings.LastIndex(p, "/"); i >= 0 {
		return p[i+1:]
	}
	return p
}
