package main

// contextcode.go — Gen/ContextCode.lean: the request accessors of context.go (`context`'s methods that read the request:
// Param…, Query…, Cookie, RemoteAddr), translated method by method (gocode.go). Library functions they call are named in
// the table below and defined, by hand, in lean/Flamego/Code/LibHTTP.lean in terms of the models of Base/Codec and
// Model/Access (which the correspondence check compares with the real net/url, net/http and strconv on every run).

func init() { emitters["ContextCode"] = emitContextCode }

func emitContextCode(repo string) (string, error) {
	return translateType(repo, codeCfg{
		pkg:          ".",
		recvType:     "context",
		namespace:    "Flamego.Gen.ContextCode",
		imports:      []string{"Flamego.Code.GoSem", "Flamego.Code.LibHTTP"},
		stringBytes:  true,
		opaqueFields: true,
		types: map[string]string{
			"*github.com/flamego/flamego.Request": "Lib.Request",
			"*net/http.Request":                   "Lib.Request",
			"*net/url.URL":                        "Lib.URL",
			"net/url.Values":                      "Lib.Values",
			"net/http.Header":                     "Lib.Header",
			"*net/http.Cookie":                    "Lib.Cookie",
			"net/http.Cookie":                     "Lib.Cookie",
		},
		lib: map[string]string{
			"strconv.Atoi":               "Lib.strconv_Atoi",
			"strconv.ParseInt":           "Lib.strconv_ParseInt",
			"strconv.ParseBool":          "Lib.strconv_ParseBool",
			"strings.TrimSpace":          "Lib.strings_TrimSpace",
			"strings.LastIndex":          "Lib.strings_LastIndex",
			"net/url.QueryUnescape":      "Lib.url_QueryUnescape",
			"(*net/url.URL).Query":       "Lib.URL_Query",
			"(net/url.Values).Get":       "Lib.Values_Get",
			"(net/http.Header).Get":      "Lib.Header_Get",
			"(*net/http.Request).Cookie": "Lib.Request_Cookie",
			"net/url.QueryEscape":        "Lib.url_QueryEscape",
			"(*net/http.Cookie).String":  "Lib.Cookie_String",
		},
		libFields: map[string]string{
			"net/http.Request.URL":        "Lib.Request_URL",
			"net/http.Request.Header":     "Lib.Request_Header",
			"net/http.Request.RemoteAddr": "Lib.Request_RemoteAddr",
			"net/http.Cookie.Value":       "Lib.Cookie_Value",
		},
		libFieldSet: map[string]string{"net/http.Cookie.Value": "Lib.Cookie_setValue"},
		prelude:     "",
		skip:        map[string]string{},
	})
}
