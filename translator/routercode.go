package main

// routercode.go — Gen/RouterCode.lean: router.go's `router.ServeHTTP`, the dispatcher (gocode.go).
// A route.Leaf and a route.Tree stand for the model's leaf and tree (Model/Tree.lean, Model/Router.lean); what a tree
// answers to `Match(path, header)` is a parameter (`matchTree`) — the matcher is the subject of C01/C02/C07's own theorems.
// The handlers the dispatcher calls (a leaf's Handler, notFound) are function values: that one was called, and with which
// arguments, is recorded in `world`, a field ADDED to the structure for this purpose (it is not in the Go struct).

func init() { emitters["RouterCode"] = emitRouterCode }

func emitRouterCode(repo string) (string, error) {
	const rt = "github.com/flamego/flamego/internal/route."
	return translateType(repo, codeCfg{
		pkg:          ".",
		recvType:     "router",
		namespace:    "Flamego.Gen.RouterCode",
		imports:      []string{"Flamego.Code.GoSem", "Flamego.Code.LibHTTP", "Flamego.Code.LibRoute"},
		stringBytes:  true,
		opaqueFields: true,
		ghostFields:  [][2]string{{"world", "List Lib.Dispatch"}},
		types: map[string]string{
			rt + "Leaf":         "Lib.Leaf",
			rt + "Tree":         "Lib.Tree",
			"*net/http.Request": "Lib.Request",
			"*net/url.URL":      "Lib.URL",
			"net/http.Header":   "Lib.Header",
		},
		lib: map[string]string{
			"(" + rt + "Leaf).Handler": "Lib.Leaf_Handler",
			"(" + rt + "Leaf).Route":   "Lib.Leaf_Route",
			"(" + rt + "Tree).Match":   "matchTree",
			"(" + rt + "Leaf).URLPath": "Lib.Leaf_URLPath",
		},
		libFields: map[string]string{
			"net/http.Request.Method": "Lib.Request_Method",
			"net/http.Request.URL":    "Lib.Request_URL",
			"net/http.Request.Header": "Lib.Request_Header",
			"net/url.URL.Path":        "Lib.URL_Path",
		},
		prelude: `variable (matchTree : Lib.Tree → Bytes → Lib.Header → Lib.Leaf × List (Bytes × Bytes) × Bool)

/-- calling a route's handler (` + "`route.Handler`" + `: func(http.ResponseWriter, *http.Request, route.Params)): recorded in the world -/
def call_Handler (f : FuncVal) (r : router) (_w : Env) (_req : Lib.Request) (params : List (Bytes × Bytes)) : router :=
  { r with world := r.world ++ [Lib.Dispatch.handler f params] }

/-- calling the not-found handler (` + "`http.HandlerFunc`" + `): recorded in the world -/
def call_HandlerFunc (f : FuncVal) (r : router) (_w : Env) (_req : Lib.Request) : router :=
  { r with world := r.world ++ [Lib.Dispatch.notFound f] }
`,
		skip:      map[string]string{},
		callFuncs: map[string]bool{"Handler": true, "HandlerFunc": true},
	})
}
