package main

// rendercode.go — Gen/RenderCode.lean: render.go's `render` (JSON, XML, Binary, PlainText) and RenderOptions, translated
// (gocode.go). The response writer the renderer holds is an ENVIRONMENT object: every call on it — Header().Set,
// WriteHeader, Write — is recorded in its trace, and so is what is done THROUGH it: json.NewEncoder(w) / xml.NewEncoder(w)
// wrap it (SetIndent / Indent / Encode are recorded as "json.…" / "xml.…"; what an encoder writes and whether it fails is
// the environment's business — C17 is partial exactly there), and http.Error(w, msg, code) is recorded as "http.Error".
// The text of an error is a parameter (`errText`).

func init() { emitters["RenderCode"] = emitRenderCode }

func emitRenderCode(repo string) (string, error) {
	return translateType(repo, codeCfg{
		pkg:         ".",
		recvType:    "render",
		namespace:   "Flamego.Gen.RenderCode",
		imports:     []string{"Flamego.Code.GoSem"},
		stringBytes: true,
		structs:     []string{"RenderOptions"},
		envCtors: map[string]string{
			"encoding/json.NewEncoder": "json.",
			"encoding/xml.NewEncoder":  "xml.",
		},
		envFuncs: map[string]string{"net/http.Error": "http.Error"},
		lib:      map[string]string{"(error).Error": "errText"},
		prelude:  "variable (errText : Err → Bytes)\n",
		skip:     map[string]string{},
	})
}
