package main

// ConstFacts, part 5: internal/route/leaf.go and tree.go (C02 C08 C12).

import (
	"go/ast"
	"go/token"
)

// rangeOver: the single `for … := range <x>` inside n
func (c *cfacts) rangeOver(n ast.Node, x, where string) *ast.RangeStmt {
	var out []*ast.RangeStmt
	ast.Inspect(n, func(y ast.Node) bool {
		if rs, ok := y.(*ast.RangeStmt); ok && exprText(rs.X) == x {
			out = append(out, rs)
		}
		return true
	})
	if len(out) != 1 {
		c.fail("%s: expected exactly one `range %s`, found %d", where, x, len(out))
		return &ast.RangeStmt{Body: &ast.BlockStmt{}}
	}
	return out[0]
}

// cmpsIn: the constant sides of every comparison `left op …` inside n
func cmpsIn(n ast.Node, left string, op token.Token) []ast.Expr {
	var out []ast.Expr
	ast.Inspect(n, func(y ast.Node) bool {
		if be, ok := y.(*ast.BinaryExpr); ok && be.Op == op && exprText(be.X) == left {
			out = append(out, be.Y)
		}
		return true
	})
	return out
}

func (c *cfacts) theCmp(n ast.Node, left string, op token.Token, where string) string {
	es := cmpsIn(n, left, op)
	if len(es) != 1 {
		c.fail("%s: expected exactly one comparison `%s %s …`, found %d", where, left, op, len(es))
		return ""
	}
	return c.str(es[0], where)
}

// writes: the arguments of the `buf.WriteString(…)` calls inside n, in source order
func writes(n ast.Node) []ast.Expr {
	var out []ast.Expr
	for _, ce := range callsIn(n, "buf.WriteString") {
		if len(ce.Args) == 1 {
			out = append(out, ce.Args[0])
		}
	}
	return out
}

// bracket: n writes exactly `"<open>"`, <mid>, `"<close>"`; returns the two literals
func (c *cfacts) bracket(n ast.Node, mid, where string) (string, string) {
	ws := writes(n)
	if len(ws) != 3 || exprText(ws[1]) != mid {
		c.fail("%s: expected the three writes `\"…\"`, %s, `\"…\"`; found %d writes", where, mid, len(ws))
		return "", ""
	}
	return c.str(ws[0], where), c.str(ws[2], where)
}

// topWrites: the literal arguments of `buf.WriteString` statements that are DIRECT children of the block
func topWrites(b *ast.BlockStmt) []ast.Expr {
	var out []ast.Expr
	for _, s := range b.List {
		if es, ok := s.(*ast.ExprStmt); ok {
			if ce, ok := es.X.(*ast.CallExpr); ok && exprText(ce.Fun) == "buf.WriteString" && len(ce.Args) == 1 {
				out = append(out, ce.Args[0])
			}
		}
	}
	return out
}

func (c *cfacts) leafFacts() {
	const rel = "internal/route/leaf.go"

	// ---- constructMatchStyleRegex ----------------------------------------------------------
	where := rel + " constructMatchStyleRegex"
	fd := c.funcIn(rel, "", "constructMatchStyleRegex")
	nb := c.theCall(fd, "bytes.NewBufferString", 1, where)
	c.add("C02", "leafRegexStart", "the argument of `bytes.NewBufferString` (start of the assembled pattern) in "+where, c.str(nb.Args[0], where))
	outer := c.rangeOver(fd, "s.Elements", where)
	lit := c.theIf(outer, "e.Ident != nil", where)
	if ws := writes(lit.Body); len(ws) != 1 || exprText(ws[0]) != "regexp.QuoteMeta(*e.Ident)" {
		c.fail("%s: a literal element is no longer written as regexp.QuoteMeta(*e.Ident)", where)
	}
	c.add("C02", "leafRegexLiteralQuoter", "how a literal element enters the pattern in "+where, leanString("regexp.QuoteMeta"))
	ph := c.theIf(outer, "e.BindIdent != nil", where)
	if ws := writes(ph.Body); len(ws) == 1 {
		c.add("C02", "leafRegexPlaceholder", "the group written for a bare `{name}` inside a regex segment (`else if e.BindIdent != nil`) in "+where, c.str(ws[0], where))
	} else {
		c.fail("%s: the `e.BindIdent != nil` branch no longer writes exactly one fragment", where)
	}
	inner := c.rangeOver(outer, "e.BindParameters.Parameters", where)
	open, close := c.bracket(inner.Body, "*p.Value.Regex", where+" parameter loop")
	c.add("C02", "leafRegexGroupOpen", "the literal written before `*p.Value.Regex` in "+where, open)
	c.add("C02", "leafRegexGroupClose", "the literal written after `*p.Value.Regex` in "+where, close)
	if tw := topWrites(fd.Body); len(tw) == 1 {
		c.add("C02", "leafRegexEnd", "the literal written after the element loop (end of the assembled pattern) in "+where, c.str(tw[0], where))
	} else {
		c.fail("%s: expected exactly one top-level buf.WriteString after the loop, found %d", where, len(tw))
	}

	// ---- the match-all keyword and `capture` -------------------------------------------------
	where = rel + " checkMatchStylePlaceholder"
	fd = c.funcIn(rel, "", "checkMatchStylePlaceholder")
	c.add("C08", "leafPlaceholderExcluded", "the bind name that is NOT a placeholder: `*s.Elements[0].BindIdent != …` in "+where,
		c.theCmp(fd, "*s.Elements[0].BindIdent", token.NEQ, where))
	where = rel + " checkMatchStyleAll"
	fd = c.funcIn(rel, "", "checkMatchStyleAll")
	c.add("C08", "leafAllBareIdent", "the bare bind `{**}`: `*s.Elements[0].BindIdent == …` in "+where,
		c.theCmp(fd, "*s.Elements[0].BindIdent", token.EQL, where))
	bare, bareCap := "", 0
	for _, st := range c.firstIf(fd).Body.List {
		if rs, ok := st.(*ast.ReturnStmt); ok && len(rs.Results) == 3 && exprText(rs.Results[2]) == "true" {
			bare, bareCap = c.str(rs.Results[0], where+" bare return"), c.num(rs.Results[1], where+" bare return")
		}
	}
	c.add("C08", "leafAllBareBind", "the bind name returned for `{**}` (first `return …, 0, true`) in "+where, bare)
	c.add("C08", "leafAllBareCapture", "the capture limit returned for `{**}` in "+where, bareCap)
	c.add("C08", "leafAllLiteral", "the value that makes `{name: …}` a match-all: `*…Parameters[0].Value.Literal != …` in "+where,
		c.theCmp(fd, "*s.Elements[0].BindParameters.Parameters[0].Value.Literal", token.NEQ, where))
	c.add("C08", "leafCaptureKeyword", "the second parameter's name: `…Parameters[1].Ident == …` in "+where,
		c.theCmp(fd, "s.Elements[0].BindParameters.Parameters[1].Ident", token.EQL, where))
	c.theCall(fd, "strconv.Atoi", 1, where)
	c.add("C08", "leafCaptureParser", "the function that reads the capture limit in "+where, leanString("strconv.Atoi"))

	// ---- newLeaf: literals of a static leaf ------------------------------------------------------
	where = rel + " newLeaf"
	tl := c.theCall(c.funcIn(rel, "", "newLeaf"), "strings.TrimLeft", 2, where)
	if exprText(tl.Args[0]) != "s.String()" {
		c.fail("%s: strings.TrimLeft no longer trims s.String()", where)
	}
	c.add("C08", "leafStaticTrimCutset", "the cutset of `literals: strings.TrimLeft(s.String(), …)` in "+where, c.str(tl.Args[1], where))

	// ---- (*matchAllLeaf).matchAll -----------------------------------------------------------------
	where = rel + " (*matchAllLeaf).matchAll"
	fd = c.funcIn(rel, "matchAllLeaf", "matchAll")
	cnt := c.theCall(fd, "strings.Count", 2, where)
	c.add("C02", "leafMatchAllCountSep", "the separator counted against the capture limit: `strings.Count(path[next-1:], …)` in "+where, c.str(cnt.Args[1], where))
	c.add("C02", "leafMatchAllJoin", "the literal between the segment and the rest: `params[l.bind] = segment + … + path[next:]` in "+where,
		c.midLit(c.assignedIn(fd, "params[l.bind]", where), "segment", "path[next:]", where))
}

// firstIf: the first `if` statement of the function body
func (c *cfacts) firstIf(fd *ast.FuncDecl) *ast.IfStmt {
	for _, s := range fd.Body.List {
		if is, ok := s.(*ast.IfStmt); ok {
			return is
		}
	}
	c.fail("%s: no top-level if statement", fd.Name.Name)
	return &ast.IfStmt{Cond: &ast.BadExpr{}, Body: &ast.BlockStmt{}}
}

// midLit: `<l> + "lit" + <r>` → lit
func (c *cfacts) midLit(e ast.Expr, l, r, where string) string {
	if be, ok := e.(*ast.BinaryExpr); ok && be.Op == token.ADD && exprText(be.Y) == r {
		return c.plusLit(be.X, l, where)
	}
	c.fail("%s: expected `%s + \"…\" + %s`, found %q", where, l, r, exprText(e))
	return ""
}
