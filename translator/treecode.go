package main

// treecode.go — Gen/RegexTreeCode.lean: internal/route's `regexTree.match` (tree.go), the place where the values a regex
// subtree captures are written into the parameter map — skipping the capture groups that belong to a user's own expression
// (gocode.go). `FindStringSubmatch` is the engine's `find` (Base/Engine.lean); the parameter map the method stores into is
// returned as an extra result (Go mutates the caller's map).

func init() { emitters["RegexTreeCode"] = emitRegexTreeCode }

func emitRegexTreeCode(repo string) (string, error) {
	return translateType(repo, codeCfg{
		pkg:          "./internal/route",
		recvType:     "regexTree",
		namespace:    "Flamego.Gen.RegexTreeCode",
		imports:      []string{"Flamego.Code.GoSem", "Flamego.Code.LibRoute"},
		stringBytes:  true,
		opaqueFields: true,
		types:        map[string]string{"*regexp.Regexp": "Lib.Regexp"},
		lib:          map[string]string{"(*regexp.Regexp).FindStringSubmatch": "Lib.Regexp_FindStringSubmatch E"},
		prelude:      "variable (E : Flamego.Engine)\n",
		skip:         map[string]string{"getBinds": "copies the bind list with make and copy (a defensive copy: no behaviour of its own)"},
	})
}

func init() { emitters["HoleTreeCode"] = emitHoleTreeCode }

// Gen/HoleTreeCode.lean: `placeholderTree` — match stores the whole segment under the bind, getBinds names it
func emitHoleTreeCode(repo string) (string, error) {
	return translateType(repo, codeCfg{
		pkg:          "./internal/route",
		recvType:     "placeholderTree",
		namespace:    "Flamego.Gen.HoleTreeCode",
		imports:      []string{"Flamego.Code.GoSem"},
		stringBytes:  true,
		opaqueFields: true,
		skip:         map[string]string{},
	})
}

func init() { emitters["AllLeafCode"] = emitAllLeafCode }

// Gen/AllLeafCode.lean: `matchAllLeaf` — match and matchAll (leaf.go): the capture limit of a match-all leaf, counted in
// segments of what is left of the path, and the value it binds. `matchHeader`, which the leaf gets from the embedded baseLeaf,
// is a parameter (`hdrOK`): header constraints have their own theorems (C09).
func emitAllLeafCode(repo string) (string, error) {
	return translateType(repo, codeCfg{
		pkg:          "./internal/route",
		recvType:     "matchAllLeaf",
		namespace:    "Flamego.Gen.AllLeafCode",
		imports:      []string{"Flamego.Code.GoSem", "Flamego.Code.LibRoute"},
		stringBytes:  true,
		opaqueFields: true,
		types:        map[string]string{"net/http.Header": "Lib.Header"},
		lib: map[string]string{
			"(*github.com/flamego/flamego/internal/route.baseLeaf).matchHeader": "hdrOK",
			"strings.Count": "Lib.strings_Count",
		},
		prelude: "-- `baseLeaf.matchHeader`: does the request satisfy the header constraints attached to this leaf\nvariable (hdrOK : matchAllLeaf → Lib.Header → Bool)\n",
		skip:    map[string]string{},
	})
}

// the other three leaf kinds (leaf.go): `match` of staticLeaf, placeholderLeaf and regexLeaf — Gen/StaticLeafCode.lean,
// Gen/HoleLeafCode.lean, Gen/RegexLeafCode.lean. As for the match-all leaf, `matchHeader` is the parameter `hdrOK`.
func leafCfg(recv, ns string) codeCfg {
	return codeCfg{
		pkg:          "./internal/route",
		recvType:     recv,
		namespace:    "Flamego.Gen." + ns,
		imports:      []string{"Flamego.Code.GoSem", "Flamego.Code.LibRoute"},
		stringBytes:  true,
		opaqueFields: true,
		types:        map[string]string{"net/http.Header": "Lib.Header", "*regexp.Regexp": "Lib.Regexp"},
		lib: map[string]string{
			"(*github.com/flamego/flamego/internal/route.baseLeaf).matchHeader": "hdrOK",
			"(*regexp.Regexp).FindStringSubmatch":                               "Lib.Regexp_FindStringSubmatch E",
		},
		prelude: "variable (E : Flamego.Engine)\n-- `baseLeaf.matchHeader`: does the request satisfy the header constraints attached to this leaf\nvariable (hdrOK : " + recv + " → Lib.Header → Bool)\n",
		skip:    map[string]string{"Static": "walks the parents of the leaf (trees are not translated)"},
	}
}

func init() {
	emitters["StaticLeafCode"] = func(repo string) (string, error) { return translateType(repo, leafCfg("staticLeaf", "StaticLeafCode")) }
	emitters["HoleLeafCode"] = func(repo string) (string, error) {
		return translateType(repo, leafCfg("placeholderLeaf", "HoleLeafCode"))
	}
	emitters["RegexLeafCode"] = func(repo string) (string, error) { return translateType(repo, leafCfg("regexLeaf", "RegexLeafCode")) }
}

func init() { emitters["LeafURLCode"] = emitLeafURLCode }

// Gen/LeafURLCode.lean: `baseLeaf.URLPath` (leaf.go) — the text a named route's URL is built from and the substitution of the
// values: two nested range loops over the route's segments and their elements, a bytes.Buffer, then strings.NewReplacer over
// the pairs `{name}` → value (Code/LibRoute.lean: the replacer is the model's `replaceAll`).
func emitLeafURLCode(repo string) (string, error) {
	return translateType(repo, codeCfg{
		pkg:          "./internal/route",
		recvType:     "baseLeaf",
		namespace:    "Flamego.Gen.LeafURLCode",
		imports:      []string{"Flamego.Code.GoSem", "Flamego.Code.LibRoute"},
		stringBytes:  true,
		opaqueFields: true,
		ptrOption:    true,
		structs:      []string{"BindParameterValue", "BindParameter", "BindParameters", "SegmentElement", "Segment", "Route"},
		types:        map[string]string{"bytes.Buffer": "Lib.Buffer", "*strings.Replacer": "Lib.Replacer"},
		lib: map[string]string{
			"(*bytes.Buffer).String":      "Lib.Buffer_String",
			"(*bytes.Buffer).Len":         "Lib.Buffer_Len",
			"strings.NewReplacer":         "Lib.strings_NewReplacer",
			"(*strings.Replacer).Replace": "Lib.Replacer_Replace",
		},
		libMut: map[string]string{"(*bytes.Buffer).WriteString": "Lib.Buffer_WriteString"},
		skip: map[string]string{"matchHeader": "needs the HeaderMatcher the leaf points to (C09's own tie is Gen/HeaderCode.lean)",
			"Static": "not a method of baseLeaf's own logic", "SetHeaderMatcher": "stores a pointer to another object", "setOptionalLeaf": "stores an interface value",
			"getParent": "returns an interface value", "Handler": "returns an interface value", "getSegment": "returns a pointer", "Route": "the route's String(), translated on its own in Gen/RouteStringCode.lean (Props/C06Code)"},
	})
}

func init() { emitters["SegStringCode"] = emitSegStringCode }

// Gen/SegStringCode.lean: `(*Segment).String` (definition.go) — the canonical text of a segment, computed once
// (sync.Once) and remembered in the segment.
func emitSegStringCode(repo string) (string, error) {
	return translateType(repo, codeCfg{
		pkg:          "./internal/route",
		recvType:     "Segment",
		namespace:    "Flamego.Gen.SegStringCode",
		imports:      []string{"Flamego.Code.GoSem", "Flamego.Code.LibRoute"},
		stringBytes:  true,
		opaqueFields: true,
		ptrOption:    true,
		structs:      []string{"BindParameterValue", "BindParameter", "BindParameters", "SegmentElement"},
		types:        map[string]string{"bytes.Buffer": "Lib.Buffer"},
		lib:          map[string]string{"(*bytes.Buffer).String": "Lib.Buffer_String"},
		libMut:       map[string]string{"(*bytes.Buffer).WriteString": "Lib.Buffer_WriteString"},
		skip:         map[string]string{},
	})
}

func init() { emitters["RouteStringCode"] = emitRouteStringCode }

// Gen/RouteStringCode.lean: `(*Route).String` (definition.go) — the canonical text of a route: its segments' texts in
// order, computed once and remembered. `s.String()` on a segment the route points to is Gen/SegStringCode's `String`; that
// the call also fills the SEGMENT's own memo is not represented here (Props/C06Code proves that a segment's memo never
// changes what its String returns).
func emitRouteStringCode(repo string) (string, error) {
	return translateType(repo, codeCfg{
		pkg:          "./internal/route",
		recvType:     "Route",
		namespace:    "Flamego.Gen.RouteStringCode",
		imports:      []string{"Flamego.Code.GoSem", "Flamego.Code.LibRoute", "Flamego.Gen.SegStringCode"},
		stringBytes:  true,
		opaqueFields: true,
		ptrOption:    true,
		types: map[string]string{"bytes.Buffer": "Lib.Buffer",
			"*github.com/flamego/flamego/internal/route.Segment": "(Option Flamego.Gen.SegStringCode.Segment)"},
		lib: map[string]string{"(*bytes.Buffer).String": "Lib.Buffer_String",
			"(*github.com/flamego/flamego/internal/route.Segment).String": "segString"},
		libMut: map[string]string{"(*bytes.Buffer).WriteString": "Lib.Buffer_WriteString"},
		prelude: "/-- `s.String()` on a segment the route points to: the value Gen/SegStringCode's `String` returns -/\n" +
			"def segString (s : Option Flamego.Gen.SegStringCode.Segment) : Bytes := (Flamego.Gen.SegStringCode.String' (GoSem.deref s)).1\n",
		skip: map[string]string{},
	})
}

func init() { emitters["BaseTreeCode"] = emitBaseTreeCode }

// Gen/BaseTreeCode.lean: `baseTree` (tree.go) — the matcher every tree inherits: matchLeaf (the leaves in order),
// matchSubtree (the subtrees in order, the match-all subtree last, then the tree's own match-all leaf), matchNextSegment
// (cut the next segment off the path). Calls on the interface values in `subtrees` and `leaves` — the children — stand for
// the model's functions on the children (Code/LibRoute.lean); the bodies here are one level of the recursion.
func emitBaseTreeCode(repo string) (string, error) {
	return translateType(repo, codeCfg{
		pkg:          "./internal/route",
		recvType:     "baseTree",
		namespace:    "Flamego.Gen.BaseTreeCode",
		imports:      []string{"Flamego.Code.GoSem", "Flamego.Code.LibRoute", "Flamego.Code.LibTree"},
		stringBytes:  true,
		opaqueFields: true,
		ptrOption:    true,
		types: map[string]string{"net/http.Header": "Lib.Header",
			"github.com/flamego/flamego/internal/route.Leaf": "Lib.Leaf",
			"github.com/flamego/flamego/internal/route.Tree": "Lib.Tree"},
		assertId: true,
		ownArgs:  " E hok",
		lib: map[string]string{
			"strings.Index":        "Lib.strings_Index",
			"strings.TrimLeft":     "Lib.strings_TrimLeft",
			"net/url.PathUnescape": "Lib.url_PathUnescape",
			"(github.com/flamego/flamego/internal/route.Tree).getMatchStyle": "Lib.Tree_getMatchStyle",
			"(github.com/flamego/flamego/internal/route.Leaf).getMatchStyle": "Lib.Leaf_getMatchStyle",
		},
		libOut: map[string]string{
			"(github.com/flamego/flamego/internal/route.Leaf).match":             "Lib.Leaf_match E hok",
			"(github.com/flamego/flamego/internal/route.Tree).match":             "Lib.Tree_match E",
			"(github.com/flamego/flamego/internal/route.Tree).matchNextSegment":  "Lib.Tree_matchNextSegment E hok",
			"(*github.com/flamego/flamego/internal/route.matchAllTree).matchAll": "Lib.Tree_matchAll E hok",
			"(*github.com/flamego/flamego/internal/route.matchAllLeaf).matchAll": "Lib.Leaf_matchAll hok",
		},
		prelude: "variable (E : Flamego.Engine) (hok : Nat → Bool)\n",
		skip: map[string]string{
			"getParent": "returns an interface value", "getSegment": "returns a pointer", "setSubtrees": "a setter", "setLeaves": "a setter",
			"getSubtrees": "a getter", "getLeaves": "a getter",
			"getBinds": "a constant", "match": "a constant", "getMatchStyle": "anonymous receiver"},
	})
}

func init() { emitters["AllTreeCode"] = emitAllTreeCode }

// Gen/AllTreeCode.lean: `matchAllTree.matchAll` (tree.go) — the match-all subtree: try the children on what follows; on a
// miss swallow one more segment, up to the capture limit. A `for cond` loop: it runs on fuel (`len(path) + 1`: every
// iteration that goes on advances `next` past a "/"), and Props/C08AllTreeCode shows the fuel suffices.
// `t.matchNextSegment`, which the tree gets from the embedded baseTree, is the search below the node (Code/LibTree.lean).
func emitAllTreeCode(repo string) (string, error) {
	return translateType(repo, codeCfg{
		pkg:          "./internal/route",
		recvType:     "matchAllTree",
		namespace:    "Flamego.Gen.AllTreeCode",
		imports:      []string{"Flamego.Code.GoSem", "Flamego.Code.LibRoute", "Flamego.Code.LibTree"},
		stringBytes:  true,
		opaqueFields: true,
		ptrOption:    true,
		structs:      []string{"baseTree"},
		types: map[string]string{"net/http.Header": "Lib.Header",
			"github.com/flamego/flamego/internal/route.Leaf": "Lib.Leaf",
			"github.com/flamego/flamego/internal/route.Tree": "Lib.Tree"},
		lib: map[string]string{"strings.Index": "Lib.strings_Index"},
		libOut: map[string]string{
			"(*github.com/flamego/flamego/internal/route.baseTree).matchNextSegment": "selfNext E hok",
		},
		loopFuel: map[string]string{"matchAll": "(path.length + 1)"},
		prelude: "variable (E : Flamego.Engine) (hok : Nat → Bool)\n" +
			"/-- `t.matchNextSegment(path, next, params, header)`, inherited from the embedded baseTree: the search below this node -/\n" +
			"def selfNext (t : matchAllTree) (path : Bytes) (next : Int) (ps : List (Bytes × Bytes)) (_ : Lib.Header) : Lib.Leaf × Bool × List (Bytes × Bytes) :=\n" +
			"  Lib.resOf ps (Flamego.matchNextIdx E hok t.baseTree.subtrees t.baseTree.leaves path next.toNat ps)\n",
		skip: map[string]string{},
	})
}

func init() { emitters["StaticTreeCode"] = emitStaticTreeCode }

// Gen/StaticTreeCode.lean: `staticTree.match` (tree.go) — the segment's canonical text without its leading "/" compared with
// the request's segment. `t.segment.String()` is Gen/SegStringCode's `String` (its value; that the call fills the
// segment's memo is not represented, as in Gen/RouteStringCode).
func emitStaticTreeCode(repo string) (string, error) {
	return translateType(repo, codeCfg{
		pkg:          "./internal/route",
		recvType:     "staticTree",
		namespace:    "Flamego.Gen.StaticTreeCode",
		imports:      []string{"Flamego.Code.GoSem", "Flamego.Code.LibRoute", "Flamego.Code.LibTree", "Flamego.Gen.SegStringCode"},
		stringBytes:  true,
		opaqueFields: true,
		ptrOption:    true,
		structs:      []string{"baseTree"},
		types: map[string]string{"net/http.Header": "Lib.Header",
			"github.com/flamego/flamego/internal/route.Leaf":     "Lib.Leaf",
			"github.com/flamego/flamego/internal/route.Tree":     "Lib.Tree",
			"*github.com/flamego/flamego/internal/route.Segment": "(Option Flamego.Gen.SegStringCode.Segment)"},
		lib: map[string]string{"(*github.com/flamego/flamego/internal/route.Segment).String": "segString"},
		prelude: "/-- `s.String()` on the segment the tree points to: the value Gen/SegStringCode's `String` returns -/\n" +
			"def segString (s : Option Flamego.Gen.SegStringCode.Segment) : Bytes := (Flamego.Gen.SegStringCode.String' (GoSem.deref s)).1\n",
		skip: map[string]string{"getBinds": "a constant"},
	})
}
