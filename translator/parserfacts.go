package main

// ParserFacts: the stateful lexer's rule table (internal/route/parser.go) and the grammar
// struct tags (internal/route/definition.go).
//
// Lexer rules are emitted per state in source order with `lexer.Include` expanded in place
// (as participle's `include.applyRules` does). Each pattern is reduced SEMANTICALLY: the
// pattern is compiled the way participle compiles it (`^(?:…)`) and run over all 256
// one-byte strings (the byte set it accepts) and over the two-byte repeats (whether it is a
// `+` class). An equivalent respelling of a character class therefore produces the same
// facts, a dropped or added character does not. The reduction is only valid for patterns
// that are a single ASCII character class (or literal), optionally under `+`; anything
// else is reported as a missing anchor, never silently approximated.

import (
	"encoding/json"
	"fmt"
	"go/ast"
	"go/token"
	"os"
	"reflect"
	"regexp"
	"regexp/syntax"
	"sort"
	"strconv"
	"strings"
	"unicode"
)

func init() { emitters["ParserFacts"] = emitParserFacts }

type lexRule struct {
	include string // non-empty: an Include(state) placeholder
	name    string
	pattern string
	action  string // "none" | "pop" | "push"
	target  string
}

func selIs(e ast.Expr, pkg, name string) bool {
	s, ok := e.(*ast.SelectorExpr)
	if !ok || s.Sel.Name != name {
		return false
	}
	id, ok := s.X.(*ast.Ident)
	return ok && id.Name == pkg
}

func strLit(e ast.Expr) (string, bool) {
	bl, ok := e.(*ast.BasicLit)
	if !ok || bl.Kind != token.STRING {
		return "", false
	}
	s, err := strconv.Unquote(bl.Value)
	return s, err == nil
}

// callOf recognises `pkg.fn(args…)`, also with explicit type arguments `pkg.fn[T](args…)`.
func callOf(e ast.Expr, pkg, fn string) (*ast.CallExpr, bool) {
	c, ok := e.(*ast.CallExpr)
	if !ok {
		return nil, false
	}
	f := c.Fun
	if ix, ok := f.(*ast.IndexExpr); ok {
		f = ix.X
	}
	if selIs(f, pkg, fn) {
		return c, true
	}
	return nil, false
}

func parseAction(e ast.Expr) (string, string, error) {
	if c, ok := callOf(e, "lexer", "Pop"); ok && len(c.Args) == 0 {
		return "pop", "", nil
	}
	if c, ok := callOf(e, "lexer", "Push"); ok && len(c.Args) == 1 {
		if s, ok := strLit(c.Args[0]); ok {
			return "push", s, nil
		}
	}
	if id, ok := e.(*ast.Ident); ok && id.Name == "nil" {
		return "none", "", nil
	}
	return "", "", fmt.Errorf("lexer rule action is neither lexer.Push(\"…\"), lexer.Pop() nor nil")
}

// reducePattern returns the accepted byte set and whether the pattern repeats.
func reducePattern(pat string) (set []int, plus bool, err error) {
	// structural guard: class | literal(1 rune) | plus(class|literal), everything ASCII
	re, err := syntax.Parse(pat, syntax.Perl)
	if err != nil {
		return nil, false, fmt.Errorf("pattern %q does not parse: %v", pat, err)
	}
	re = re.Simplify()
	atom := re
	if re.Op == syntax.OpPlus && len(re.Sub) == 1 {
		atom = re.Sub[0]
	}
	for atom.Op == syntax.OpCapture && len(atom.Sub) == 1 {
		atom = atom.Sub[0]
	}
	switch atom.Op {
	case syntax.OpLiteral:
		if len(atom.Rune) != 1 || atom.Flags&syntax.FoldCase != 0 {
			return nil, false, fmt.Errorf("pattern %q is not a single character class (optionally under +)", pat)
		}
	case syntax.OpCharClass:
	default:
		return nil, false, fmt.Errorf("pattern %q is not a single character class (optionally under +)", pat)
	}
	for _, r := range atom.Rune {
		if r > unicode.MaxASCII {
			return nil, false, fmt.Errorf("pattern %q accepts non-ASCII runes; the byte-set reduction does not cover it", pat)
		}
	}
	// semantic reduction, compiled exactly as participle's lexer.New does
	cre, err := regexp.Compile("^(?:" + pat + ")")
	if err != nil {
		return nil, false, err
	}
	full := func(s string) int {
		m := cre.FindStringIndex(s)
		if m == nil {
			return 0
		}
		return m[1]
	}
	for b := 0; b < 256; b++ {
		switch full(string([]byte{byte(b)})) {
		case 1:
			set = append(set, b)
		case 0:
		default:
			return nil, false, fmt.Errorf("pattern %q: unexpected match length on byte %d", pat, b)
		}
	}
	if full("") != 0 {
		return nil, false, fmt.Errorf("pattern %q accepts the empty string", pat)
	}
	if len(set) == 0 {
		return nil, false, fmt.Errorf("pattern %q accepts no single byte", pat)
	}
	// repeats: every accepted pair is consumed either fully (a + class) or by one byte (not)
	nTwo, nOne := 0, 0
	for _, a := range set {
		for _, b := range set {
			switch full(string([]byte{byte(a), byte(b)})) {
			case 2:
				nTwo++
			case 1:
				nOne++
			default:
				return nil, false, fmt.Errorf("pattern %q: unexpected match length on bytes %d %d", pat, a, b)
			}
		}
	}
	if nTwo > 0 && nOne > 0 {
		return nil, false, fmt.Errorf("pattern %q is neither a plain class nor a + class", pat)
	}
	plus = nTwo > 0
	if plus {
		// and a third repetition, and a stop at the first byte outside the set
		a := byte(set[0])
		if full(string([]byte{a, a, a})) != 3 {
			return nil, false, fmt.Errorf("pattern %q: bounded repetition is not modelled", pat)
		}
	}
	inSet := map[int]bool{}
	for _, b := range set {
		inSet[b] = true
	}
	for b := 0; b < 256; b++ {
		if !inSet[b] && full(string([]byte{byte(set[0]), byte(b)})) != 1 {
			return nil, false, fmt.Errorf("pattern %q: match extends over byte %d outside its set", pat, b)
		}
	}
	return set, plus, nil
}

// what the harness read from the BUILT parser at run time (`harness lexrules`, reflection on the value NewParser
// returns): the fallback when the source no longer has the literal shapes the AST extraction looks for
type runtimeLex struct {
	States []struct {
		Name  string `json:"name"`
		Rules []struct {
			Name, Pattern, Action, Target string
		} `json:"rules"`
	} `json:"states"`
	Tags [][2]string `json:"tags"`
}

func loadRuntimeLex() *runtimeLex {
	p := os.Getenv("VERIF_LEXRULES")
	if p == "" {
		return nil
	}
	raw, err := os.ReadFile(p)
	if err != nil {
		return nil
	}
	var r runtimeLex
	if json.Unmarshal(raw, &r) != nil || len(r.States) == 0 {
		return nil
	}
	return &r
}

// lexRulesFromAST: `lexer.New(lexer.Rules{…})` of parser.go → states in source order with Include expanded,
// plus the participle.Build call
func lexRulesFromAST(repo string) (stateOrder []string, expanded map[string][]lexRule, buildCall *ast.CallExpr, err error) {
	fail := func(e error) ([]string, map[string][]lexRule, *ast.CallExpr, error) { return nil, nil, buildCall, e }
	_ = fail
	_, pf, perr := parseFile(repo, "internal/route/parser.go")
	if perr != nil {
		return nil, nil, nil, perr
	}
	// --- lexer.New(lexer.Rules{…}) ---------------------------------------------------------
	var rulesLit *ast.CompositeLit
	ast.Inspect(pf, func(n ast.Node) bool {
		if c, ok := n.(*ast.CallExpr); ok {
			if cc, ok := callOf(c, "lexer", "New"); ok && len(cc.Args) == 1 {
				if cl, ok := cc.Args[0].(*ast.CompositeLit); ok && selIs(cl.Type, "lexer", "Rules") {
					rulesLit = cl
				}
			}
			if cc, ok := callOf(c, "participle", "Build"); ok {
				buildCall = cc
			}
		}
		return true
	})
	if rulesLit == nil {
		return nil, nil, buildCall, fmt.Errorf("lexer.New(lexer.Rules{…}) not found in parser.go")
	}
	states := map[string][]lexRule{}
	for _, e := range rulesLit.Elts {
		kv, ok := e.(*ast.KeyValueExpr)
		if !ok {
			return nil, nil, buildCall, fmt.Errorf("lexer.Rules element is not key: value")
		}
		st, ok := strLit(kv.Key)
		if !ok {
			return nil, nil, buildCall, fmt.Errorf("lexer.Rules key is not a string literal")
		}
		if _, dup := states[st]; dup {
			return nil, nil, buildCall, fmt.Errorf("lexer state %q defined twice", st)
		}
		list, ok := kv.Value.(*ast.CompositeLit)
		if !ok {
			return nil, nil, buildCall, fmt.Errorf("rules of state %q are not a composite literal", st)
		}
		var rs []lexRule
		for _, re := range list.Elts {
			if c, ok := callOf(re, "lexer", "Include"); ok && len(c.Args) == 1 {
				s, ok := strLit(c.Args[0])
				if !ok {
					return nil, nil, buildCall, fmt.Errorf("lexer.Include argument is not a string literal")
				}
				rs = append(rs, lexRule{include: s})
				continue
			}
			cl, ok := re.(*ast.CompositeLit)
			if !ok {
				return nil, nil, buildCall, fmt.Errorf("state %q: rule is neither a literal nor lexer.Include", st)
			}
			r := lexRule{action: "none"}
			seenName, seenPat := false, false
			for _, f := range cl.Elts {
				fkv, ok := f.(*ast.KeyValueExpr)
				if !ok {
					return nil, nil, buildCall, fmt.Errorf("state %q: rule literal without field names", st)
				}
				k, _ := fkv.Key.(*ast.Ident)
				if k == nil {
					return nil, nil, buildCall, fmt.Errorf("state %q: odd rule field", st)
				}
				switch k.Name {
				case "Name":
					r.name, seenName = strLit(fkv.Value)
				case "Pattern":
					r.pattern, seenPat = strLit(fkv.Value)
				case "Action":
					a, t, err := parseAction(fkv.Value)
					if err != nil {
						return nil, nil, buildCall, fmt.Errorf("state %q rule %q: %v", st, r.name, err)
					}
					r.action, r.target = a, t
				default:
					return nil, nil, buildCall, fmt.Errorf("state %q: unknown rule field %s", st, k.Name)
				}
			}
			if !seenName || !seenPat {
				return nil, nil, buildCall, fmt.Errorf("state %q: rule without literal Name and Pattern", st)
			}
			rs = append(rs, r)
		}
		stateOrder = append(stateOrder, st)
		states[st] = rs
	}
	if _, ok := states["Root"]; !ok {
		return nil, nil, buildCall, fmt.Errorf("lexer has no Root state")
	}
	var expand func(st string, depth int) ([]lexRule, error)
	expand = func(st string, depth int) ([]lexRule, error) {
		if depth > len(states) {
			return nil, fmt.Errorf("lexer.Include cycle through %q", st)
		}
		rs, ok := states[st]
		if !ok {
			return nil, fmt.Errorf("lexer.Include of unknown state %q", st)
		}
		var out []lexRule
		for _, r := range rs {
			if r.include != "" {
				sub, err := expand(r.include, depth+1)
				if err != nil {
					return nil, err
				}
				out = append(out, sub...)
			} else {
				out = append(out, r)
			}
		}
		return out, nil
	}

	expanded = map[string][]lexRule{}
	for _, st := range stateOrder {
		rs, e := expand(st, 0)
		if e != nil {
			return nil, nil, buildCall, e
		}
		for _, r := range rs {
			if r.action == "push" {
				if _, ok := states[r.target]; !ok {
					return nil, nil, buildCall, fmt.Errorf("state %q rule %q pushes unknown state %q", st, r.name, r.target)
				}
			}
		}
		expanded[st] = rs
	}
	return stateOrder, expanded, buildCall, nil
}

type gtag struct{ where, text string }

var requiredTags = []string{"Route.Segments", "Segment.Slash", "Segment.Elements", "SegmentElement.Ident", "BindParameters.Parameters", "BindParameter.Ident", "BindParameterValue.Literal"}

func tagsComplete(tags []gtag) error {
	for _, w := range requiredTags {
		found := false
		for _, t := range tags {
			if t.where == w {
				found = true
			}
		}
		if !found {
			return fmt.Errorf("grammar tag %s not found", w)
		}
	}
	return nil
}

// grammarTagsFromAST: the `parser:"…"` struct tags of definition.go in source order
func grammarTagsFromAST(repo string) ([]gtag, error) {
	_, df, err := parseFile(repo, "internal/route/definition.go")
	if err != nil {
		return nil, err
	}
	var tags []gtag
	for _, d := range df.Decls {
		gd, ok := d.(*ast.GenDecl)
		if !ok || gd.Tok != token.TYPE {
			continue
		}
		for _, s := range gd.Specs {
			ts := s.(*ast.TypeSpec)
			st, ok := ts.Type.(*ast.StructType)
			if !ok {
				continue
			}
			for _, f := range st.Fields.List {
				if f.Tag == nil {
					continue
				}
				raw, err := strconv.Unquote(f.Tag.Value)
				if err != nil {
					continue
				}
				v, ok := reflect.StructTag(raw).Lookup("parser")
				if !ok || strings.TrimSpace(v) == "-" {
					continue
				}
				for _, n := range f.Names {
					tags = append(tags, gtag{ts.Name.Name + "." + n.Name, strings.Join(strings.Fields(v), " ")})
				}
			}
		}
	}
	// The order in which the struct TYPES are declared means nothing to participle (the grammar is reached from Route
	// through the fields); the order of the FIELDS inside one struct is the order of the sequence. Types are emitted
	// sorted by name, fields in source order: moving a type declaration within the file changes nothing here.
	sort.SliceStable(tags, func(i, j int) bool {
		return tags[i].where[:strings.Index(tags[i].where, ".")] < tags[j].where[:strings.Index(tags[j].where, ".")]
	})
	return tags, tagsComplete(tags)
}

func emitParserFacts(repo string) (string, error) {
	rt := loadRuntimeLex()
	stateOrder, states, buildCall, err := lexRulesFromAST(repo)
	if err != nil {
		if rt == nil {
			return "", err
		}
		// the literal `lexer.New(lexer.Rules{…})` is gone from the source: take the rules of the BUILT lexer
		unregeneratedFacts = append(unregeneratedFacts, unregenerated{"ParserFacts", "lexRules", "C06",
			"read from the built parser at run time (harness lexrules), the source anchor was not found: " + err.Error()})
		stateOrder, states = nil, map[string][]lexRule{}
		canon := []string{"Root", "Segment", "Bind", "BindParameter", "BindParameterRegexValue", "Common"}
		byName := map[string]int{}
		for i, st := range rt.States {
			byName[st.Name] = i
		}
		var names []string
		for _, n := range canon {
			if _, ok := byName[n]; ok {
				names = append(names, n)
			}
		}
		var others []string
		for _, st := range rt.States {
			isCanon := false
			for _, n := range canon {
				if n == st.Name {
					isCanon = true
				}
			}
			if !isCanon {
				others = append(others, st.Name)
			}
		}
		sort.Strings(others)
		names = append(names, others...)
		for _, n := range names {
			var rs []lexRule
			for _, r := range rt.States[byName[n]].Rules {
				rs = append(rs, lexRule{name: r.Name, pattern: r.Pattern, action: r.Action, target: r.Target})
			}
			stateOrder = append(stateOrder, n)
			states[n] = rs
		}
	}
	expand := func(st string, _ int) ([]lexRule, error) { return states[st], nil }
	// only the states the lexer can be in: reachable from Root through Push (a state that exists only to be
	// `Include`d — "Common" — is not one; whether the source keeps such a helper state is a matter of style)
	reach := map[string]bool{"Root": true}
	for changed := true; changed; {
		changed = false
		for st := range reach {
			for _, r := range states[st] {
				if r.action == "push" && !reach[r.target] {
					if _, ok := states[r.target]; ok {
						reach[r.target] = true
						changed = true
					}
				}
			}
		}
	}
	var kept []string
	for _, st := range stateOrder {
		if reach[st] {
			kept = append(kept, st)
		}
	}
	stateOrder = kept
	var b strings.Builder
	b.WriteString("namespace Flamego.Gen\n\n")
	b.WriteString("/-- what a lexer rule does to the state stack when it matches (`lexer.Push(S)`, `lexer.Pop()`, nothing) -/\n")
	b.WriteString("inductive LexAction\n  | none\n  | push (state : String)\n  | pop\n  deriving DecidableEq, Repr, Inhabited\n\n")
	b.WriteString("/-- one rule of the stateful lexer: `bytes` = the one-byte strings its pattern accepts, `plus` = it\n")
	b.WriteString("    also consumes every further byte of that set (a `[…]+` class), `elide` = participle drops the token\n")
	b.WriteString("    (rule name starts with a lower-case letter) -/\n")
	b.WriteString("structure LexRule where\n  name : String\n  bytes : List UInt8\n  plus : Bool\n  elide : Bool\n  action : LexAction\n  deriving DecidableEq, Repr, Inhabited\n\n")
	b.WriteString("/-- `lexer.Rules{…}` of parser.go: the states reachable from Root, in source order, `lexer.Include` expanded in place -/\n")
	b.WriteString("def lexRules : List (String × List LexRule) := [\n")
	for i, st := range stateOrder {
		rs, err := expand(st, 0)
		if err != nil {
			return "", err
		}
		fmt.Fprintf(&b, "  (%s, [\n", leanStr(st))
		for j, r := range rs {
			set, plus, err := reducePattern(r.pattern)
			if err != nil {
				return "", fmt.Errorf("state %q rule %q: %v", st, r.name, err)
			}
			nums := make([]string, len(set))
			for k, v := range set {
				nums[k] = strconv.Itoa(v)
			}
			act := ".none"
			switch r.action {
			case "push":
				act = ".push " + leanStr(r.target)
			case "pop":
				act = ".pop"
			}
			elide := len(r.name) > 0 && unicode.IsLower(rune(r.name[0]))
			fmt.Fprintf(&b, "    { name := %s, bytes := [%s], plus := %v, elide := %v, action := %s }",
				leanStr(r.name), strings.Join(nums, ", "), plus, elide, act)
			if j+1 < len(rs) {
				b.WriteString(",")
			}
			b.WriteString("\n")
		}
		b.WriteString("  ])")
		if i+1 < len(stateOrder) {
			b.WriteString(",")
		}
		b.WriteString("\n")
	}
	b.WriteString("]\n\n")

	// --- participle.Build options (lookahead, no Elide) ------------------------------------
	var opts []string
	if buildCall == nil {
		unregeneratedFacts = append(unregeneratedFacts, unregenerated{"ParserFacts", "parserOptions", "C06", "participle.Build[…](…) not found in parser.go: documented options kept"})
		opts = []string{"Lexer(l)", "UseLookahead(2)"}
		buildCall = &ast.CallExpr{}
	}
	for _, a := range buildCall.Args {
		c, ok := a.(*ast.CallExpr)
		if !ok {
			return "", fmt.Errorf("participle.Build option is not a call")
		}
		sel, ok := c.Fun.(*ast.SelectorExpr)
		if !ok {
			return "", fmt.Errorf("participle.Build option is not participle.X(…)")
		}
		var args []string
		for _, x := range c.Args {
			switch v := x.(type) {
			case *ast.BasicLit:
				args = append(args, v.Value)
			case *ast.Ident:
				args = append(args, v.Name)
			default:
				args = append(args, "?")
			}
		}
		opts = append(opts, sel.Sel.Name+"("+strings.Join(args, ",")+")")
	}
	b.WriteString("/-- the options given to `participle.Build` in parser.go, in order -/\n")
	b.WriteString("def parserOptions : List String := [")
	for i, o := range opts {
		if i > 0 {
			b.WriteString(", ")
		}
		b.WriteString(leanStr(o))
	}
	b.WriteString("]\n\n")

	// --- grammar struct tags ---------------------------------------------------------------
	tags, terr := grammarTagsFromAST(repo)
	if terr != nil {
		if rt == nil || len(rt.Tags) == 0 {
			return "", terr
		}
		unregeneratedFacts = append(unregeneratedFacts, unregenerated{"ParserFacts", "grammarTags", "C06",
			"read from the AST types by reflection at run time (harness lexrules), the source anchor was not found: " + terr.Error()})
		tags = nil
		for _, t := range rt.Tags {
			tags = append(tags, gtag{t[0], strings.Join(strings.Fields(t[1]), " ")})
		}
		if e := tagsComplete(tags); e != nil {
			return "", e
		}
	}
	b.WriteString("/-- the `parser:\"…\"` struct tags of definition.go (`Type.Field`, tag with whitespace normalised), types sorted by name, fields of a type in source order -/\n")
	b.WriteString("def grammarTags : List (String × String) := [\n")
	for i, t := range tags {
		fmt.Fprintf(&b, "  (%s, %s)", leanStr(t.where), leanStr(t.text))
		if i+1 < len(tags) {
			b.WriteString(",")
		}
		b.WriteString("\n")
	}
	b.WriteString("]\n\nend Flamego.Gen\n")
	return b.String(), nil
}
