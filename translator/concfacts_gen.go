package main

// ConcFacts, part 2: constraint generation for one function body in one phase.

import (
	"fmt"
	"go/token"
	"go/types"
	"path/filepath"

	"golang.org/x/tools/go/ssa"
)

func (a *an) posOf(fn *ssa.Function, p token.Pos) string {
	if !p.IsValid() && fn != nil {
		p = fn.Pos()
		for f := fn; !p.IsValid() && f != nil; f = f.Parent() {
			p = f.Pos()
		}
	}
	if !p.IsValid() {
		return "?"
	}
	ps := a.prog.Fset.Position(p)
	return fmt.Sprintf("%s:%d", filepath.Base(ps.Filename), ps.Line)
}

func fnName(fn *ssa.Function) string {
	if fn == nil {
		return "?"
	}
	return fn.RelString(nil)
}

// val returns the node of an SSA value in a phase (component idx of a tuple).
func (a *an) valI(v ssa.Value, ph, idx int) *nd {
	switch x := v.(type) {
	case *ssa.Const, *ssa.Builtin:
		return newNd()
	case *ssa.Function:
		k := vkey{v, -1, 0}
		if n, ok := a.vals[k]; ok {
			return n
		}
		n := newNd()
		a.vals[k] = n
		o := a.newObj(okey{x, -1, "func"}, kFunc, -1, x.Signature, "func "+fnName(x))
		o.fn = x
		a.add(n, loc{o: o})
		return n
	case *ssa.Global:
		k := vkey{v, -1, 0}
		if n, ok := a.vals[k]; ok {
			return n
		}
		n := newNd()
		a.vals[k] = n
		o := a.newObj(okey{x, -1, "global"}, kGlobal, -1, deref(x.Type()), "global "+x.RelString(nil))
		a.add(n, loc{o: o})
		return n
	}
	k := vkey{v, ph, idx}
	if n, ok := a.vals[k]; ok {
		return n
	}
	n := newNd()
	a.vals[k] = n
	return n
}

func (a *an) val(v ssa.Value, ph int) *nd { return a.valI(v, ph, 0) }

func (a *an) ret(fn *ssa.Function, ph, i int) *nd {
	k := rkey{fn, ph, i}
	if n, ok := a.rets[k]; ok {
		return n
	}
	n := newNd()
	a.rets[k] = n
	return n
}

func (a *an) allocObj(site ssa.Value, fn *ssa.Function, ph int, typ types.Type, what string, sub string) *object {
	label := fmt.Sprintf("%s in %s @%s", what, fnName(fn), a.ctxLabel(ph))
	return a.newObj(okey{site, ph, sub}, kAlloc, ph, typ, label)
}

// load: dst receives what is stored at the addresses in addr (element type T)
func (a *an) load(addr, dst *nd, T types.Type) {
	if structLike(T) {
		a.mapEdge(addr, dst, func(l loc) (loc, bool) { l.tag = ""; return l, true })
	} else if pointerLike(T) {
		a.watchNd(addr, func(l loc) { a.copyEdge(a.cellOf(l), dst) })
	}
}

// store: the value in src (type T) is stored at the addresses in addr
func (a *an) store(addr, src *nd, T types.Type, ph int) {
	if tracked(T) {
		a.watchNd(addr, func(d loc) {
			if isExt(d.o) {
				a.watchNd(src, func(s loc) { a.handOut(s, ph, "stored into application/library memory") })
			}
		})
	}
	if structLike(T) {
		a.watchNd(addr, func(d loc) {
			a.watchNd(src, func(s loc) { a.prefixCopy(loc{o: s.o, path: s.path}, loc{o: d.o, path: d.path}) })
		})
	} else if pointerLike(T) {
		a.watchNd(addr, func(d loc) { a.copyEdge(src, a.cellOf(d)) })
	}
}

func (a *an) recordWrite(instr ssa.Instruction, fn *ssa.Function, ph int, kind string, addr *nd, target string) {
	if !isServe(ph) {
		return
	}
	a.writes = append(a.writes, writeRec{instr, fn, kind, addr, target})
}

// describe the written place for humans: struct type + field, map, element, global
func describeAddr(v ssa.Value) string {
	switch x := v.(type) {
	case *ssa.FieldAddr:
		t := deref(x.X.Type())
		return shortType(t) + "." + fieldName(t, x.Field)
	case *ssa.IndexAddr:
		return describeAddr(x.X) + "[i]"
	case *ssa.Global:
		return "global " + x.RelString(nil)
	case *ssa.UnOp:
		if x.Op == token.MUL {
			return describeAddr(x.X)
		}
	case *ssa.Alloc:
		if x.Comment != "" && x.Comment != "complit" && x.Comment != "new" {
			return "var " + x.Comment + " " + shortType(deref(x.Type()))
		}
		return shortType(deref(x.Type()))
	case *ssa.Field:
		return shortType(x.X.Type()) + "." + fieldName(x.X.Type(), x.Field)
	case *ssa.Parameter:
		return "param " + x.Name() + " " + shortType(x.Type())
	case *ssa.FreeVar:
		return "captured " + x.Name() + " " + shortType(deref(x.Type()))
	case *ssa.Slice:
		return describeAddr(x.X)
	case *ssa.ChangeType:
		return describeAddr(x.X)
	}
	return shortType(v.Type())
}

func (a *an) inst(fn *ssa.Function, ph int) {
	k := ikey{fn, ph}
	if a.insts[k] {
		return
	}
	a.insts[k] = true
	if len(fn.Blocks) == 0 {
		return
	}
	// recover block too
	blocks := fn.Blocks
	if fn.Recover != nil {
		blocks = append(append([]*ssa.BasicBlock{}, blocks...), fn.Recover)
	}
	seen := map[*ssa.BasicBlock]bool{}
	for _, b := range blocks {
		if seen[b] {
			continue
		}
		seen[b] = true
		for _, instr := range b.Instrs {
			a.genInstr(fn, ph, instr)
		}
	}
}

func (a *an) genInstr(fn *ssa.Function, ph int, instr ssa.Instruction) {
	switch v := instr.(type) {
	case *ssa.Alloc:
		what := v.Comment
		if what == "complit" || what == "new" || what == "" {
			what = "&" + shortType(deref(v.Type())) + "{}"
		} else {
			what = "var " + what + " " + shortType(deref(v.Type()))
		}
		o := a.allocObj(v, fn, ph, deref(v.Type()), what, "")
		o.stack = !v.Heap
		a.add(a.val(v, ph), loc{o: o})
	case *ssa.MakeMap:
		a.add(a.val(v, ph), loc{o: a.allocObj(v, fn, ph, v.Type(), "make("+shortType(v.Type())+")", "")})
	case *ssa.MakeSlice:
		a.add(a.val(v, ph), loc{o: a.allocObj(v, fn, ph, v.Type(), "make("+shortType(v.Type())+")", "")})
	case *ssa.MakeChan:
		a.add(a.val(v, ph), loc{o: a.allocObj(v, fn, ph, v.Type(), "make("+shortType(v.Type())+")", "")})
	case *ssa.MakeClosure:
		cf := v.Fn.(*ssa.Function)
		phs := "setup"
		if isServe(ph) {
			phs = "serve"
		}
		o := a.newObj(okey{v, ph, "closure"}, kClosure, ph, cf.Signature, fmt.Sprintf("closure %s made in %s @%s", fnName(cf), fnName(fn), phs))
		o.fn = cf
		for i, b := range v.Bindings {
			if tracked(b.Type()) {
				if structLike(b.Type()) {
					i := i
					a.watchNd(a.val(b, ph), func(s loc) { a.prefixCopy(loc{o: s.o, path: s.path}, loc{o: o, path: fmt.Sprintf("$%d", i)}) })
				} else {
					a.copyEdge(a.val(b, ph), a.cell(o, fmt.Sprintf("$%d", i)))
				}
			}
		}
		a.add(a.val(v, ph), loc{o: o})
	case *ssa.MakeInterface:
		tag := a.tagOf(v.X.Type())
		if pointerLike(v.X.Type()) {
			a.mapEdge(a.val(v.X, ph), a.val(v, ph), func(l loc) (loc, bool) { l.tag = tag; return l, true })
		} else {
			box := a.allocObj(v, fn, ph, v.X.Type(), "boxed "+shortType(v.X.Type()), "box")
			if structLike(v.X.Type()) {
				a.watchNd(a.val(v.X, ph), func(s loc) { a.prefixCopy(loc{o: s.o, path: s.path}, loc{o: box}) })
			}
			a.add(a.val(v, ph), loc{o: box, tag: tag})
		}
	case *ssa.FieldAddr:
		name := "." + fieldName(v.X.Type(), v.Field)
		a.mapEdge(a.val(v.X, ph), a.val(v, ph), func(l loc) (loc, bool) { return sub(l, name), true })
	case *ssa.Field:
		name := "." + fieldName(v.X.Type(), v.Field)
		if structLike(v.Type()) {
			a.mapEdge(a.val(v.X, ph), a.val(v, ph), func(l loc) (loc, bool) { return sub(l, name), true })
		} else if pointerLike(v.Type()) {
			dst := a.val(v, ph)
			a.watchNd(a.val(v.X, ph), func(l loc) { a.copyEdge(a.cellOf(sub(l, name)), dst) })
		}
	case *ssa.IndexAddr:
		a.mapEdge(a.val(v.X, ph), a.val(v, ph), func(l loc) (loc, bool) { return sub(l, "[]"), true })
	case *ssa.Index:
		if structLike(v.Type()) {
			a.mapEdge(a.val(v.X, ph), a.val(v, ph), func(l loc) (loc, bool) { return sub(l, "[]"), true })
		} else if pointerLike(v.Type()) {
			dst := a.val(v, ph)
			a.watchNd(a.val(v.X, ph), func(l loc) { a.copyEdge(a.cellOf(sub(l, "[]")), dst) })
		}
	case *ssa.Slice:
		if tracked(v.X.Type()) && pointerLike(v.Type()) {
			a.mapEdge(a.val(v.X, ph), a.val(v, ph), func(l loc) (loc, bool) { l.tag = ""; return l, true })
		}
	case *ssa.UnOp:
		switch v.Op {
		case token.MUL:
			a.load(a.val(v.X, ph), a.val(v, ph), v.Type())
		case token.ARROW:
			T := v.Type()
			if v.CommaOk {
				T = v.Type().(*types.Tuple).At(0).Type()
			}
			dst := a.valI(v, ph, 0)
			if structLike(T) {
				a.mapEdge(a.val(v.X, ph), dst, func(l loc) (loc, bool) { return sub(l, "[]"), true })
			} else if pointerLike(T) {
				a.watchNd(a.val(v.X, ph), func(l loc) { a.copyEdge(a.cellOf(sub(l, "[]")), dst) })
			}
		}
	case *ssa.Store:
		if al, ok := v.Addr.(*ssa.Alloc); !ok || al.Heap {
			a.recordWrite(v, fn, ph, "store", a.val(v.Addr, ph), describeAddr(v.Addr))
		}
		a.store(a.val(v.Addr, ph), a.val(v.Val, ph), v.Val.Type(), ph)
	case *ssa.Phi:
		if tracked(v.Type()) {
			for _, e := range v.Edges {
				a.copyEdge(a.val(e, ph), a.val(v, ph))
			}
		}
	case *ssa.ChangeType:
		if tracked(v.Type()) {
			a.copyEdge(a.val(v.X, ph), a.val(v, ph))
		}
	case *ssa.ChangeInterface:
		a.copyEdge(a.val(v.X, ph), a.val(v, ph))
	case *ssa.SliceToArrayPointer:
		a.copyEdge(a.val(v.X, ph), a.val(v, ph))
	case *ssa.Convert:
		if pointerLike(v.Type()) {
			if pointerLike(v.X.Type()) {
				a.copyEdge(a.val(v.X, ph), a.val(v, ph))
			} else {
				a.add(a.val(v, ph), loc{o: a.allocObj(v, fn, ph, v.Type(), shortType(v.Type())+"(string)", "")})
			}
		}
	case *ssa.TypeAssert:
		T := v.AssertedType
		dst := a.valI(v, ph, 0)
		_, isIface := T.Underlying().(*types.Interface)
		a.mapEdge(a.val(v.X, ph), dst, func(l loc) (loc, bool) {
			if l.tag == "" {
				return l, true
			}
			dt := a.tagTypes[l.tag]
			if isIface {
				if types.Implements(dt, T.Underlying().(*types.Interface)) {
					return l, true
				}
				return l, false
			}
			if types.Identical(dt, T) {
				l.tag = ""
				return l, true
			}
			return l, false
		})
	case *ssa.Extract:
		if tracked(v.Type()) {
			a.copyEdge(a.valI(v.Tuple, ph, v.Index), a.val(v, ph))
		}
	case *ssa.Lookup:
		mt, ok := v.X.Type().Underlying().(*types.Map)
		if !ok {
			return
		}
		dst := a.valI(v, ph, 0)
		if structLike(mt.Elem()) {
			a.mapEdge(a.val(v.X, ph), dst, func(l loc) (loc, bool) { return sub(l, "[v]"), true })
		} else if pointerLike(mt.Elem()) {
			a.watchNd(a.val(v.X, ph), func(l loc) { a.copyEdge(a.cellOf(sub(l, "[v]")), dst) })
		}
	case *ssa.MapUpdate:
		a.recordWrite(v, fn, ph, "mapupdate", a.val(v.Map, ph), describeAddr(v.Map)+"[k]")
		a.watchNd(a.val(v.Map, ph), func(m loc) {
			a.store(single(sub(m, "[k]")), a.val(v.Key, ph), v.Key.Type(), ph)
			a.store(single(sub(m, "[v]")), a.val(v.Value, ph), v.Value.Type(), ph)
		})
	case *ssa.Range:
		a.copyEdge(a.val(v.X, ph), a.val(v, ph))
	case *ssa.Next:
		if v.IsString {
			return
		}
		tt := v.Type().(*types.Tuple)
		for i, comp := range []string{"", "[k]", "[v]"} {
			if i == 0 {
				continue
			}
			T := tt.At(i).Type()
			dst := a.valI(v, ph, i)
			comp := comp
			if structLike(T) {
				a.mapEdge(a.val(v.Iter, ph), dst, func(l loc) (loc, bool) { return sub(l, comp), true })
			} else if pointerLike(T) {
				a.watchNd(a.val(v.Iter, ph), func(l loc) { a.copyEdge(a.cellOf(sub(l, comp)), dst) })
			}
		}
	case *ssa.Send:
		a.watchNd(a.val(v.Chan, ph), func(c loc) { a.store(single(sub(c, "[]")), a.val(v.X, ph), v.X.Type(), ph) })
	case *ssa.Return:
		for i, r := range v.Results {
			if tracked(r.Type()) {
				a.copyEdge(a.val(r, ph), a.ret(fn, ph, i))
			}
		}
	case *ssa.Call:
		a.genCall(fn, ph, v, v.Common(), v)
	case *ssa.Go:
		a.genCall(fn, ph, v, v.Common(), nil)
	case *ssa.Defer:
		a.genCall(fn, ph, v, v.Common(), nil)
	}
}

// single: a throw-away node holding one location (so that store() can be reused)
func single(l loc) *nd {
	n := newNd()
	n.set[l] = struct{}{}
	n.list = append(n.list, l)
	return n
}
