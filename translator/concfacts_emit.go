package main

// ConcFacts, part 4: loading, roots, classification, Lean output and the stderr table.

import (
	"fmt"
	"go/token"
	"go/types"
	"os"
	"sort"
	"strings"

	"golang.org/x/tools/go/callgraph/cha"
	"golang.org/x/tools/go/packages"
	"golang.org/x/tools/go/ssa"
	"golang.org/x/tools/go/ssa/ssautil"
)

type accessOut struct {
	target, kind, fn, pos, objects, once string
	insideOnce, atomic, requestLocal     bool
}

func emitConcFacts(repo string) (string, error) {
	cfg := &packages.Config{
		Mode: packages.NeedName | packages.NeedFiles | packages.NeedCompiledGoFiles | packages.NeedImports |
			packages.NeedTypes | packages.NeedTypesSizes | packages.NeedSyntax | packages.NeedTypesInfo | packages.NeedModule,
		Dir:   repo,
		Env:   append(os.Environ(), "GOFLAGS=-mod=mod", "GOPROXY=off", "GOSUMDB=off", "GOTOOLCHAIN=local", "CGO_ENABLED=0"),
		Tests: false,
	}
	pkgs, err := packages.Load(cfg, "./...")
	if err != nil {
		return "", err
	}
	if len(pkgs) == 0 {
		return "", fmt.Errorf("no packages under %s", repo)
	}
	modPath := ""
	for _, p := range pkgs {
		if len(p.Errors) > 0 {
			return "", fmt.Errorf("package %s does not type-check: %v", p.PkgPath, p.Errors[0])
		}
		if p.Module != nil && modPath == "" {
			modPath = p.Module.Path
		}
	}
	if modPath == "" {
		return "", fmt.Errorf("module path not found")
	}
	prog, spkgs := ssautil.Packages(pkgs, ssa.InstantiateGenerics)
	prog.Build()

	a := newAn(prog, modPath)

	// ---- roots -----------------------------------------------------------------------------------
	var flameServe *ssa.Function
	var modPkgs []*ssa.Package
	for _, sp := range spkgs {
		if sp != nil && a.inModule(sp.Pkg) && !strings.Contains(sp.Pkg.Path()+"/", "/internal/") {
			modPkgs = append(modPkgs, sp)
		}
	}
	sort.Slice(modPkgs, func(i, j int) bool { return modPkgs[i].Pkg.Path() < modPkgs[j].Pkg.Path() })
	for _, sp := range modPkgs {
		names := make([]string, 0, len(sp.Members))
		for n := range sp.Members {
			names = append(names, n)
		}
		sort.Strings(names)
		a.setupRoot(sp.Func("init"))
		for _, n := range names {
			switch m := sp.Members[n].(type) {
			case *ssa.Function:
				if token.IsExported(n) {
					a.setupRoot(m)
				}
			case *ssa.Type:
				if !token.IsExported(n) {
					continue
				}
				if _, isIface := m.Type().Underlying().(*types.Interface); isIface {
					continue
				}
				recvTypes := []types.Type{m.Type()}
				if _, isStruct := m.Type().Underlying().(*types.Struct); isStruct {
					recvTypes = []types.Type{types.NewPointer(m.Type())} // *T's method set includes T's
				}
				for _, T := range recvTypes {
					ms := prog.MethodSets.MethodSet(T)
					for i := 0; i < ms.Len(); i++ {
						sel := ms.At(i)
						if !sel.Obj().Exported() {
							continue
						}
						f := prog.MethodValue(sel)
						if f == nil {
							continue
						}
						if sel.Obj().Name() == "ServeHTTP" {
							if sp.Pkg.Path() == modPath && n == "Flame" {
								if _, isPtr := T.(*types.Pointer); isPtr {
									flameServe = f
								}
							}
							continue // serve roots, not set-up API
						}
						a.setupRoot(f)
					}
				}
			}
		}
	}
	if flameServe == nil || len(flameServe.Params) != 3 {
		return "", fmt.Errorf("(*Flame).ServeHTTP not found")
	}
	a.inst(flameServe, phServe)
	a.poolInto(a.val(flameServe.Params[0], phServe), flameServe.Params[0].Type())
	a.add(a.val(flameServe.Params[1], phServe), loc{o: a.extReq})
	a.add(a.val(flameServe.Params[2], phServe), loc{o: a.extReq})
	a.solve()
	a.debugDump()

	// ---- which objects are reachable from shared state ------------------------------------------
	sharedRoot := func(o *object) bool {
		switch o.kind {
		case kGlobal, kExt, kFunc:
			return true
		case kAlloc, kClosure:
			return o.ph != phServe
		}
		return false
	}
	sharedReach := map[*object]bool{}
	var stack []*object
	for _, o := range a.allObjs {
		if sharedRoot(o) {
			sharedReach[o] = true
			stack = append(stack, o)
		}
	}
	for len(stack) > 0 {
		o := stack[len(stack)-1]
		stack = stack[:len(stack)-1]
		var nodes []*nd
		if isExt(o) {
			nodes = append(nodes, o.extNode)
		}
		for _, p := range o.paths {
			nodes = append(nodes, a.cells[ckey{o, p}])
		}
		for _, n := range nodes {
			for _, l := range n.list {
				if !sharedReach[l.o] && l.o.kind != kExtReq {
					sharedReach[l.o] = true
					stack = append(stack, l.o)
				}
			}
		}
	}
	isLocal := func(o *object) bool {
		if o.kind == kExtReq {
			return true
		}
		return (o.kind == kAlloc || o.kind == kClosure) && o.ph == phServe && !sharedReach[o]
	}
	objLabel := func(o *object) string {
		if (o.kind == kAlloc || o.kind == kClosure) && o.ph == phServe && sharedReach[o] {
			return o.label + " (ESCAPED into shared state)"
		}
		return o.label
	}

	// ---- classify writes ------------------------------------------------------------------------
	var inOnceRec func(fn *ssa.Function, visiting map[*ssa.Function]bool) []onceInfo
	inOnceRec = func(fn *ssa.Function, visiting map[*ssa.Function]bool) []onceInfo {
		for f := fn; f != nil; f = f.Parent() {
			if oi, ok := a.once[f]; ok {
				return oi
			}
		}
		// not itself given to a Do: under a Once all the same when EVERY caller is (and under the same one)
		if visiting[fn] || len(a.callersOf[fn]) == 0 || len(visiting) > 6 {
			return nil
		}
		visiting[fn] = true
		defer delete(visiting, fn)
		var res []onceInfo
		for c := range a.callersOf[fn] {
			if c == nil {
				return nil
			}
			oi := inOnceRec(c, visiting)
			if oi == nil {
				return nil
			}
			if res != nil && (len(res) == 0 || len(oi) == 0 || res[0].name != oi[0].name) {
				return nil
			}
			res = oi
		}
		return res
	}
	inOnce := func(fn *ssa.Function) []onceInfo { return inOnceRec(fn, map[*ssa.Function]bool{}) }
	seen := map[string]bool{}
	var outs []accessOut
	for _, w := range a.writes {
		var objs []*object
		os_ := map[*object]bool{}
		for _, l := range w.addr.list {
			if l.o.stack {
				continue
			}
			if !os_[l.o] {
				os_[l.o] = true
				objs = append(objs, l.o)
			}
		}
		if len(objs) == 0 && len(w.addr.list) > 0 {
			continue // only non-escaping local variables
		}
		if len(objs) == 0 && w.kind == "append" {
			continue // append to a nil slice: the write goes to the freshly grown array
		}
		local := len(objs) > 0
		var labels []string
		for _, o := range objs {
			if !isLocal(o) {
				local = false
			}
			labels = append(labels, objLabel(o))
		}
		sort.Strings(labels)
		if len(labels) == 0 {
			labels = []string{"UNKNOWN (no allocation flows here: classified shared)"}
		}
		out := accessOut{target: w.target, kind: w.kind, fn: fnName(w.fn), pos: a.posOf(w.fn, w.instr.Pos()),
			objects: strings.Join(labels, "; "), requestLocal: local, atomic: w.kind == "atomic"}
		if ois := inOnce(w.fn); ois != nil {
			// guarded only if the Once lives in (one of) the very objects that are written
			same := len(objs) > 0
			onceObjs := map[*object]bool{}
			for _, oi := range ois {
				for _, l := range oi.addr.list {
					onceObjs[l.o] = true
				}
				out.once = oi.name
			}
			for _, o := range objs {
				if !onceObjs[o] {
					same = false
				}
			}
			out.insideOnce = same
		}
		key := fmt.Sprint(out.target, "|", out.kind, "|", out.fn, "|", out.objects, "|", out.insideOnce, out.atomic, out.requestLocal)
		if seen[key] {
			continue
		}
		seen[key] = true
		outs = append(outs, out)
	}
	sort.Slice(outs, func(i, j int) bool {
		x, y := outs[i], outs[j]
		if x.fn != y.fn {
			return x.fn < y.fn
		}
		if x.target != y.target {
			return x.target < y.target
		}
		if x.kind != y.kind {
			return x.kind < y.kind
		}
		return x.objects < y.objects
	})

	// ---- library calls made while serving on objects that are definitely shared -----------------
	definitelyShared := func(o *object) bool {
		switch o.kind {
		case kGlobal:
			return true
		case kExt:
			return o == a.ext
		case kAlloc, kClosure:
			return !o.stack && (o.ph != phServe || sharedReach[o])
		}
		return false
	}
	type extOut struct {
		callee, fn string
	}
	seenE := map[extOut]bool{}
	var exts []extOut
	for _, e := range a.extCalls {
		if strings.Contains(e.callee, "application") || strings.HasPrefix(e.callee, "invoke flamego.") ||
			strings.HasPrefix(e.callee, "invoke inject.") || strings.HasPrefix(e.callee, "invoke route.") {
			continue // application handlers / application implementations of the framework's interfaces: outside the claim
		}
		shared := false
		for _, n := range e.args {
			for _, l := range n.list {
				if definitelyShared(l.o) {
					shared = true
				}
			}
		}
		if !shared {
			continue
		}
		eo := extOut{e.callee, fnName(e.fn)}
		if !seenE[eo] {
			seenE[eo] = true
			exts = append(exts, eo)
		}
	}
	sort.Slice(exts, func(i, j int) bool {
		if exts[i].callee != exts[j].callee {
			return exts[i].callee < exts[j].callee
		}
		return exts[i].fn < exts[j].fn
	})
	// one entry per callee, callers joined
	var merged []extOut
	for _, e := range exts {
		if n := len(merged); n > 0 && merged[n-1].callee == e.callee {
			merged[n-1].fn += ", " + e.fn
		} else {
			merged = append(merged, e)
		}
	}
	exts = merged

	// ---- reads of once-guarded fields -------------------------------------------------------------
	type guarded struct{ typ, field, once string }
	gset := map[guarded]bool{}
	for _, w := range a.writes {
		if inOnce(w.fn) == nil {
			continue
		}
		if st, ok := w.instr.(*ssa.Store); ok {
			if fa, ok := st.Addr.(*ssa.FieldAddr); ok {
				t := deref(fa.X.Type())
				gset[guarded{shortType(t), fieldName(t, fa.Field), ""}] = true
			}
		}
	}
	type readOut struct {
		target, fn, pos string
		afterDo         bool
	}
	var reads []readOut
	seenR := map[string]bool{}
	var serveFns []*ssa.Function
	inServe := map[*ssa.Function]bool{}
	for k := range a.insts {
		if isServe(k.ph) && len(k.fn.Blocks) > 0 && !inServe[k.fn] {
			inServe[k.fn] = true
			serveFns = append(serveFns, k.fn)
		}
	}
	sort.Slice(serveFns, func(i, j int) bool { return fnName(serveFns[i]) < fnName(serveFns[j]) })
	for _, fn := range serveFns {
		for _, b := range fn.Blocks {
			for idx, instr := range b.Instrs {
				u, ok := instr.(*ssa.UnOp)
				if !ok || u.Op != token.MUL {
					continue
				}
				fa, ok := u.X.(*ssa.FieldAddr)
				if !ok {
					continue
				}
				t := deref(fa.X.Type())
				if !gset[guarded{shortType(t), fieldName(t, fa.Field), ""}] {
					continue
				}
				// the object read: when it can only be a request-local one (the request's own writer, its context …)
				// no other goroutine has it and the read needs no Once
				baseLocal, baseSeen := true, false
				for k := range a.insts {
					if k.fn != fn || !isServe(k.ph) {
						continue
					}
					for _, l := range a.val(fa.X, k.ph).list {
						if l.o.stack {
							continue
						}
						baseSeen = true
						if !isLocal(l.o) {
							baseLocal = false
						}
					}
				}
				if baseSeen && baseLocal {
					continue
				}
				after := inOnce(fn) != nil
				if !after {
					// a dominating call of a METHOD on the same base whose first block runs base.<once>.Do(...): the Do
					// is then behind the read just as well (a helper that does the Do, called before the read)
					for _, b2 := range fn.Blocks {
						for j, in2 := range b2.Instrs {
							c, ok := in2.(*ssa.Call)
							if !ok || len(c.Common().Args) == 0 {
								continue
							}
							g := c.Common().StaticCallee()
							if g == nil || len(g.Blocks) == 0 || len(g.Params) == 0 || !sameBase(c.Common().Args[0], fa.X) {
								continue
							}
							does := false
							for _, gi := range g.Blocks[0].Instrs {
								gc, ok := gi.(*ssa.Call)
								if !ok {
									continue
								}
								if sc := gc.Common().StaticCallee(); sc != nil && sc.String() == "(*sync.Once).Do" {
									if ofa, ok := gc.Common().Args[0].(*ssa.FieldAddr); ok && isParamValue(ofa.X, g.Params[0]) {
										does = true
									}
								}
							}
							if does && ((b2 == b && j < idx) || (b2 != b && b2.Dominates(b))) {
								after = true
							}
						}
					}
				}
				if !after {
					// a call x.<once>.Do(...) on the same base value that dominates this read
					for _, b2 := range fn.Blocks {
						for j, in2 := range b2.Instrs {
							c, ok := in2.(*ssa.Call)
							if !ok {
								continue
							}
							sc := c.Common().StaticCallee()
							if sc == nil || sc.String() != "(*sync.Once).Do" {
								continue
							}
							ofa, ok := c.Common().Args[0].(*ssa.FieldAddr)
							if !ok || !sameBase(ofa.X, fa.X) {
								continue
							}
							if (b2 == b && j < idx) || (b2 != b && b2.Dominates(b)) {
								after = true
							}
						}
					}
				}
				r := readOut{shortType(t) + "." + fieldName(t, fa.Field), fnName(fn), a.posOf(fn, u.Pos()), after}
				k := r.target + "|" + r.fn + fmt.Sprint(r.afterDo)
				if !seenR[k] {
					seenR[k] = true
					reads = append(reads, r)
				}
			}
		}
	}

	// ---- CHA cross-check (stderr only) -------------------------------------------------------------
	cg := cha.CallGraph(prog)
	chaReach := map[*ssa.Function]bool{}
	var q []*ssa.Function
	push := func(f *ssa.Function) {
		if f != nil && !chaReach[f] && len(f.Blocks) > 0 {
			chaReach[f] = true
			q = append(q, f)
		}
	}
	push(flameServe)
	for len(q) > 0 {
		f := q[0]
		q = q[1:]
		if n := cg.Nodes[f]; n != nil {
			for _, e := range n.Out {
				push(e.Callee.Func)
			}
		}
		for _, af := range f.AnonFuncs {
			push(af)
		}
	}
	var chaOnly, flowOnly []string
	for f := range chaReach {
		if !inServe[f] {
			chaOnly = append(chaOnly, fnName(f))
		}
	}
	for _, f := range serveFns {
		if !chaReach[f] {
			flowOnly = append(flowOnly, fnName(f))
		}
	}
	sort.Strings(chaOnly)
	sort.Strings(flowOnly)

	// ---- stderr table -------------------------------------------------------------------------------
	fmt.Fprintf(os.Stderr, "ConcFacts: %d function bodies analysed in the serve phase (CHA reaches %d from (*Flame).ServeHTTP)\n", len(serveFns), len(chaReach))
	fmt.Fprintf(os.Stderr, "%-5s %-6s %-5s %-10s %-44s %-22s %s\n", "LOCAL", "ONCE", "ATOM", "KIND", "TARGET", "WHERE", "FUNCTION  <-  OBJECTS")
	for _, o := range outs {
		fmt.Fprintf(os.Stderr, "%-5v %-6v %-5v %-10s %-44s %-22s %s  <-  %s\n", o.requestLocal, o.insideOnce, o.atomic, o.kind, o.target, o.pos, o.fn, o.objects)
	}
	for _, r := range reads {
		fmt.Fprintf(os.Stderr, "read of once-guarded %-30s %-22s %s afterDo=%v\n", r.target, r.pos, r.fn, r.afterDo)
	}
	for _, e := range exts {
		fmt.Fprintf(os.Stderr, "library call on shared object: %-50s in %s\n", e.callee, e.fn)
	}
	fmt.Fprintf(os.Stderr, "CHA-only (pruned by the flow analysis: the receiver/func value never arrives): %s\n", strings.Join(chaOnly, ", "))
	fmt.Fprintf(os.Stderr, "flow-only (reached through reflection or call-backs, invisible to CHA): %s\n", strings.Join(flowOnly, ", "))

	// ---- Lean ---------------------------------------------------------------------------------------
	var b strings.Builder
	b.WriteString(`/-
  Write footprint of request serving, extracted from the Go source (translator/concfacts*.go):
  every Store / MapUpdate / append / copy / delete / sync/atomic store executed by a function body that
  the flow analysis reaches from (*Flame).ServeHTTP, in module code only.
-/
namespace Flamego.Gen.ConcFacts

/-- one write site -/
structure Access where
  target : String        -- struct type and field (or map / element / global) written
  kind : String          -- store | mapupdate | mapdelete | append | copy | clear | atomic
  fn : String            -- enclosing Go function
  objects : String       -- the abstract objects that may be written (allocation site @ phase)
  once : String          -- the sync.Once whose Do closure contains the write ("" if none)
  insideOnce : Bool      -- inside a closure passed to (*sync.Once).Do of a Once living in the written object
  atomic : Bool          -- a sync/atomic operation
  requestLocal : Bool    -- every written object is allocated while serving and never escapes to shared state
  deriving Repr, DecidableEq

/-- a read of a field that is written under a sync.Once -/
structure OnceRead where
  target : String
  fn : String
  afterDo : Bool         -- inside the Do closure, or dominated by x.<once>.Do(...) on the same x
  deriving Repr, DecidableEq

/-- a call made while serving into library code (standard library / third-party, not analysed) with a
    pointer-like argument that may denote an object that is definitely shared (built during set-up, a
    global, or application-supplied) -/
structure LibCall where
  callee : String
  fn : String
  deriving Repr, DecidableEq

`)
	fmt.Fprintf(&b, "def servePhaseFunctions : Nat := %d\n\n", len(serveFns))
	b.WriteString("def sharedWrites : List Access := [\n")
	for i, o := range outs {
		sep := ","
		if i == len(outs)-1 {
			sep = ""
		}
		fmt.Fprintf(&b, "  { target := %s, kind := %s, fn := %s,\n    objects := %s,\n    once := %s, insideOnce := %v, atomic := %v, requestLocal := %v }%s\n",
			leanStr(o.target), leanStr(o.kind), leanStr(o.fn), leanStr(o.objects), leanStr(o.once), o.insideOnce, o.atomic, o.requestLocal, sep)
	}
	b.WriteString("]\n\ndef onceGuardedReads : List OnceRead := [\n")
	for i, r := range reads {
		sep := ","
		if i == len(reads)-1 {
			sep = ""
		}
		fmt.Fprintf(&b, "  { target := %s, fn := %s, afterDo := %v }%s\n", leanStr(r.target), leanStr(r.fn), r.afterDo, sep)
	}
	b.WriteString("]\n\ndef libraryCallsOnShared : List LibCall := [\n")
	for i, e := range exts {
		sep := ","
		if i == len(exts)-1 {
			sep = ""
		}
		fmt.Fprintf(&b, "  { callee := %s, fn := %s }%s\n", leanStr(e.callee), leanStr(e.fn), sep)
	}
	b.WriteString("]\n\nend Flamego.Gen.ConcFacts\n")
	return b.String(), nil
}

// sameBase: do x and y denote the same object? (the same SSA value, or two loads of one local variable that is
// assigned exactly once — how a receiver captured by a closure is spelled in SSA)
func sameBase(x, y ssa.Value) bool {
	if x == y {
		return true
	}
	ux, ok1 := x.(*ssa.UnOp)
	uy, ok2 := y.(*ssa.UnOp)
	if !ok1 || !ok2 || ux.Op != token.MUL || uy.Op != token.MUL || ux.X != uy.X {
		return false
	}
	al, ok := ux.X.(*ssa.Alloc)
	if !ok {
		return false
	}
	stores := 0
	for _, r := range *al.Referrers() {
		switch t := r.(type) {
		case *ssa.Store:
			if t.Addr == al {
				stores++
			}
		case *ssa.UnOp, *ssa.MakeClosure, *ssa.DebugRef:
		default:
			return false
		}
	}
	return stores == 1
}

// isParamValue: v is the parameter p, or a load of the heap cell the parameter was copied into because a closure
// captures it (`t0 = new T (p); *t0 = p; … *t0 …`)
func isParamValue(v ssa.Value, p *ssa.Parameter) bool {
	if v == ssa.Value(p) {
		return true
	}
	u, ok := v.(*ssa.UnOp)
	if !ok || u.Op != token.MUL {
		return false
	}
	al, ok := u.X.(*ssa.Alloc)
	if !ok {
		return false
	}
	stores, fromParam := 0, false
	for _, r := range *al.Referrers() {
		if st, ok := r.(*ssa.Store); ok && st.Addr == ssa.Value(al) {
			stores++
			fromParam = st.Val == ssa.Value(p)
		}
	}
	return stores == 1 && fromParam
}
