package main

// classifycode.go — Gen/ClassifyCode.lean: internal/route's AST structs (definition.go) and the three predicates of leaf.go that
// decide a segment's match style — isMatchStyleStatic, checkMatchStylePlaceholder, checkMatchStyleAll — as pure functions
// (gocode.go). A pointer field (`*string`, `*BindParameters`) is an Option; the `*Segment` parameter stands for the segment.

func init() { emitters["ClassifyCode"] = emitClassifyCode }

func emitClassifyCode(repo string) (string, error) {
	return translateType(repo, codeCfg{
		pkg:          "./internal/route",
		recvType:     "Segment",
		namespace:    "Flamego.Gen.ClassifyCode",
		imports:      []string{"Flamego.Code.GoSem", "Flamego.Code.LibRoute", "Flamego.Code.LibHTTP"},
		stringBytes:  true,
		opaqueFields: true,
		ptrOption:    true,
		structs:      []string{"BindParameterValue", "BindParameter", "BindParameters", "SegmentElement"},
		funcs:        []string{"isMatchStyleStatic", "checkMatchStylePlaceholder", "checkMatchStyleAll", "constructMatchStyleRegex"},
		types:        map[string]string{"*regexp.Regexp": "Lib.Regexp", "*bytes.Buffer": "Lib.Buffer"},
		lib: map[string]string{
			"strconv.Atoi":                 "Lib.route_Atoi",
			"regexp.QuoteMeta":             "Flamego.quoteMeta",
			"regexp.Compile":               "Lib.regexp_Compile E",
			"(*regexp.Regexp).NumSubexp":   "Lib.Regexp_NumSubexp E",
			"bytes.NewBufferString":        "Lib.Buffer_new",
			"(*bytes.Buffer).String":       "Lib.Buffer_String",
			"github.com/pkg/errors.Errorf": "Lib.errors_Errorf@0",
			"github.com/pkg/errors.Wrapf":  "Lib.errors_Wrapf@1",
		},
		libMut:  map[string]string{"(*bytes.Buffer).WriteString": "Lib.Buffer_WriteString"},
		prelude: "variable (E : Flamego.Engine)\n",
		skip:    map[string]string{"String": "translated on its own in Gen/SegStringCode.lean and Gen/RouteStringCode.lean (Props/C06Code)"},
	})
}
