package main

// classifycode.go — Gen/ClassifyCode.lean: internal/route's AST structs (definition.go) and the three predicates of leaf.go that
// decide a segment's match style — isMatchStyleStatic, checkMatchStylePlaceholder, checkMatchStyleAll — as pure functions
// (gocode.go). A pointer field (`*string`, `*BindParameters`) is an Option; the `*Segment` parameter stands for the segment.

func init() { emitters["ClassifyCode"] = emitClassifyCode }

func emitClassifyCode(repo string) (string, error) {
	return translateType(repo, codeCfg{
		pkg:          "./internal/route",
		recvType:     "Segment",
		namespace:    "Flamego.Gen.ClassifyCode",
		imports:      []string{"Flamego.Code.GoSem", "Flamego.Code.LibRoute"},
		stringBytes:  true,
		opaqueFields: true,
		ptrOption:    true,
		structs:      []string{"BindParameterValue", "BindParameter", "BindParameters", "SegmentElement"},
		funcs:        []string{"isMatchStyleStatic", "checkMatchStylePlaceholder", "checkMatchStyleAll"},
		lib:          map[string]string{"strconv.Atoi": "Lib.route_Atoi"},
		skip:         map[string]string{"String": "renders through a bytes.Buffer inside a sync.Once (the renderer is C06's subject)"},
	})
}
