package main

import (
	"fmt"
	"os"
	"strings"

	"golang.org/x/tools/go/ssa"
)

// debugDump prints the flow facts of every value of the functions named in CONCFACTS_DUMP (comma separated substrings)
func (a *an) debugDump() {
	want := os.Getenv("CONCFACTS_DUMP")
	if want == "" {
		return
	}
	for k := range a.insts {
		name := fnName(k.fn)
		hit := false
		for _, w := range strings.Split(want, ",") {
			if strings.HasSuffix(name, w) {
				hit = true
			}
		}
		if !hit || len(k.fn.Blocks) == 0 {
			continue
		}
		fmt.Fprintf(os.Stderr, "=== %s phase %d\n", name, k.ph)
		show := func(v ssa.Value) {
			n, ok := a.vals[vkey{v, k.ph, 0}]
			if !ok {
				return
			}
			var ls []string
			for _, l := range n.list {
				ls = append(ls, fmt.Sprintf("%s%s<%s>", l.o.label, l.path, l.tag))
			}
			fmt.Fprintf(os.Stderr, "  %s = %s : {%s}\n", v.Name(), v.String(), strings.Join(ls, " | "))
		}
		for _, p := range k.fn.Params {
			show(p)
		}
		for _, p := range k.fn.FreeVars {
			show(p)
		}
		for _, b := range k.fn.Blocks {
			for _, in := range b.Instrs {
				if v, ok := in.(ssa.Value); ok {
					show(v)
				}
			}
		}
	}
}
